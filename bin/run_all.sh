#!/bin/sh
# run_all.sh [tier]: every registered check, one after the other (each uses all cores); summary on stdout
T=${1:-quick}
cd /verif
for id in $(python3 -c "import json;print(' '.join(c['property_id'] for c in json.load(open('MANIFEST.json'))['checks']))" 2>/dev/null || ls checks | sed 's/\.py$//'); do
  s=$(date +%s)
  bin/check $id --tier $T > out/run_all_$id.log 2>&1; rc=$?
  e=$(date +%s)
  echo "$id rc=$rc $((e-s))s $(grep -cE '^VIOLATION' out/run_all_$id.log) violations, $(grep -cE '^KNOWN-FINDING' out/run_all_$id.log) known"
done
