#!/bin/sh
# seed_run.sh <patch.diff> <check-id> [extra args]: apply a seeded change to /repo, run a check, restore /repo
# (the evidence file of the check is saved and put back: evidence in /verif/evidence always describes the unchanged tree)
P=$1; ID=$2; shift 2
cd /repo && git diff --quiet || { echo "/repo not clean"; exit 9; }
git -C /repo apply "$P" || exit 8
base=$(echo $ID | sed 's/-.*//')
[ -f /verif/evidence/$base.json ] && cp /verif/evidence/$base.json /tmp/seedrun_ev_$base.json
cd /verif && bin/check $ID "$@" > /tmp/seedrun_$ID.log 2>&1; rc=$?
git -C /repo checkout -- .
[ -f /tmp/seedrun_ev_$base.json ] && mv /tmp/seedrun_ev_$base.json /verif/evidence/$base.json
grep -E "VIOLATION|^OK|INFRASTRUCTURE|KNOWN" /tmp/seedrun_$ID.log | head -5
echo "check $ID rc=$rc"
