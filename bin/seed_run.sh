#!/bin/sh
# seed_run.sh <patch.diff> <check-id> [extra args]: apply a seeded change to /repo, run a check, restore /repo
P=$1; ID=$2; shift 2
cd /repo && git diff --quiet || { echo "/repo not clean"; exit 9; }
git -C /repo apply "$P" || exit 8
cd /verif && bin/check $ID "$@" > /tmp/seedrun_$ID.log 2>&1; rc=$?
git -C /repo checkout -- .
grep -E "VIOLATION|^OK|INFRASTRUCTURE|KNOWN" /tmp/seedrun_$ID.log | head -5
echo "check $ID rc=$rc"
