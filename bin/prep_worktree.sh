#!/bin/sh
# prep_worktree.sh <dir>: scratch git worktree of /repo HEAD with a working in-tree build (for seeding experiments)
set -e
D=$1
git -C /repo worktree add --detach "$D" HEAD >/dev/null 2>&1
# bring the (untracked) autotools configuration over, then rebuild so that libtool wrappers point into the copy
rsync -a --exclude .git --exclude '*.o' --exclude '*.lo' --exclude '*.la' --exclude '.libs' --exclude '*.test' --exclude '*.log' --exclude '*.trs' /repo/ "$D"/
cd "$D" && make -j16 >/dev/null 2>&1 && make -C tests -j16 check TESTS= >/dev/null 2>&1
echo "ready: $D"
