#!/bin/sh
# seed_verify.sh <ID>: confirm a seeded change in its scratch worktree: builds, suite passes, demo fails with / passes without
ID=$1; WT=/tmp/mut_$ID; OUT=/tmp/mutout_$ID; LOG=$OUT/verify.log
exec > $LOG 2>&1
cd $WT || exit 9
git checkout -q . ; git apply --check $OUT/patch.diff || { echo "PATCH DOES NOT APPLY"; exit 1; }
make -j4 >/dev/null 2>&1
(cd $OUT && sh build.sh $WT >/dev/null 2>&1; ./demo >/dev/null 2>&1; echo "demo on clean tree: rc=$?")
git apply $OUT/patch.diff
make -j4 2>&1 | grep -i -E "warning|error" | head -5
echo "build with change: rc=$?"
(cd $OUT && sh build.sh $WT >/dev/null 2>&1; ./demo >/dev/null 2>&1; echo "demo with change: rc=$?")
make -C tests -j4 check 2>&1 | grep -E "^(PASS|FAIL|ERROR|# TOTAL|# PASS|# FAIL)"
git checkout -q .
make -j4 >/dev/null 2>&1
git status --short | head -3
echo "verify done"
