/*
 * L2 (public API) replay of finding C20-empty-slot.
 * qb_hdb_handle_put / _destroy / _refcount_get validate only the check word;
 * a released slot is zeroed, so a never-issued handle with check word 0 (or the
 * documented no-check form) addressing a released slot is accepted: destroy
 * marks the empty slot PENDINGREMOVAL with ref_count -1 and it is lost for ever.
 */
#include <stdio.h>
#include <stdint.h>
#include <qb/qbhdb.h>

int main(void)
{
	struct qb_hdb db;
	qb_handle_t h1, h2;
	int bad = 0;
	qb_hdb_create(&db);
	if (qb_hdb_handle_create(&db, 8, &h1) != 0) return 2;
	if (qb_hdb_handle_destroy(&db, h1) != 0) return 2;      /* slot 0 released */
	qb_handle_t never_issued = (qb_handle_t)0;                /* slot 0, check word 0 */
	int r1 = qb_hdb_handle_refcount_get(&db, never_issued);
	int r2 = qb_hdb_handle_put(&db, never_issued);
	int r3 = qb_hdb_handle_destroy(&db, qb_hdb_nocheck_convert(0));
	printf("L2: refcount_get=%d put=%d destroy=%d on a released slot (expected -EBADF each)\n", r1, r2, r3);
	if (r1 >= 0 || r2 == 0 || r3 == 0) bad = 1;
	if (qb_hdb_handle_create(&db, 8, &h2) != 0) return 2;
	if (qb_hdb_base_convert(h2) != 0) { printf("L2: released slot 0 was not reused (new handle got slot %u)\n", qb_hdb_base_convert(h2)); bad = 1; }
	if (bad) printf("L2: DEFECT REPRODUCED: never-issued handle values accepted on a released slot\n");
	else printf("L2: not reproduced\n");
	return bad;
}
