/*
 * L2 (public API) replay of finding C09-expiry-wrap.
 * expire_time = now + duration is computed in uint64_t without an overflow
 * check, so a duration the API accepts (close to 2^64 ns) wraps to an instant
 * in the past: the timer fires at once and "time remaining" reports 0 while it
 * is pending.
 */
#include <stdio.h>
#include <stdint.h>
#include <sys/epoll.h>
#include <qb/qbloop.h>

static qb_loop_t *l;
static int fired;
int epoll_wait(int epfd, struct epoll_event *ev, int maxev, int timeout)
{
	(void)epfd; (void)ev; (void)maxev; (void)timeout;
	qb_loop_stop(l);
	return 0;
}
static void cb(void *d) { (void)d; fired++; }

int main(void)
{
	qb_loop_timer_handle th;
	int bad = 0;
	l = qb_loop_create();
	if (qb_loop_timer_add(l, QB_LOOP_HIGH, UINT64_MAX, NULL, cb, &th) != 0) return 2;
	uint64_t rem = qb_loop_timer_expire_time_remaining(l, th);
	printf("L2: duration 2^64-1 ns: time remaining right after add = %llu\n", (unsigned long long)rem);
	if (rem == 0) bad = 1;
	qb_loop_run(l);
	qb_loop_run(l);
	printf("L2: callback fired %d time(s) within two loop iterations\n", fired);
	if (fired) bad = 1;
	if (bad) printf("L2: DEFECT REPRODUCED: a ~584-year timer fires immediately / reports no time remaining\n");
	else printf("L2: not reproduced\n");
	return bad;
}
