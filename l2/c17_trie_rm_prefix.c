/*
 * L2 (public API) replay of finding C17-trie-rm-valueless.
 * With "ab" and "ac" in a trie, qb_map_rm(m, "a") finds the internal branching
 * node for "a" (which carries no value), reports success and decrements the count.
 */
#include <stdio.h>
#include <qb/qbmap.h>
int main(void)
{
	static int v1 = 1, v2 = 2;
	qb_map_t *m = qb_trie_create();
	qb_map_put(m, "ab", &v1);
	qb_map_put(m, "ac", &v2);
	int32_t r = qb_map_rm(m, "a");
	size_t c = qb_map_count_get(m);
	printf("L2: rm(\"a\") with only \"ab\",\"ac\" present returned %d, count is now %zu (expected 0 / 2)\n", r, c);
	int bad = (r != 0) || (c != 2);
	qb_map_destroy(m);
	if (bad) printf("L2: DEFECT REPRODUCED: removing a key that is only a prefix of stored keys reports success\n");
	else printf("L2: not reproduced\n");
	return bad;
}
