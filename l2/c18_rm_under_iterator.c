/*
 * L2 (public API) replay of findings C18-rm-under-iterator (hashtable, trie) and
 * C18-skiplist-rm-with-zombie.
 *
 * hashtable / trie: removing the entry an iterator is positioned on only drops one
 * reference; the entry stays findable.  A second qb_map_rm() of the same key
 * "succeeds" again (count underflows) and frees the node under the iterator.
 *
 * skiplist: with an iterator positioned on "a", rm("a") then rm("ab") (its successor)
 * frees the forward array the removed node still uses; the iterator's next step reads
 * freed memory.
 */
#include <stdio.h>
#include <stdlib.h>
#include <unistd.h>
#include <sys/wait.h>
#include <qb/qbmap.h>

static int scenario(int impl)
{
	static int v1 = 1, v2 = 2;
	void *val;
	qb_map_t *m = impl == 0 ? qb_hashtable_create(8) : impl == 1 ? qb_skiplist_create() : qb_trie_create();
	qb_map_put(m, "a", &v1);
	qb_map_put(m, "ab", &v2);
	qb_map_iter_t *it = qb_map_iter_create(m);
	const char *k = qb_map_iter_next(it, &val);       /* positioned on the first entry */
	char first[8];
	snprintf(first, sizeof first, "%s", k);
	const char *other = (first[1] == 0) ? "ab" : "a";
	int bad = 0;
	if (impl == 1) {
		int r1 = qb_map_rm(m, first);
		int r2 = qb_map_rm(m, other);
		(void)r1; (void)r2;
		k = qb_map_iter_next(it, &val);          /* reads the freed forward array */
		if (k != NULL) { printf("L2: skiplist iterator returned a key after everything was removed\n"); bad = 1; }
	} else {
		int r1 = qb_map_rm(m, first);
		int r2 = qb_map_rm(m, first);            /* key is gone: must fail */
		size_t c = qb_map_count_get(m);
		if (r1 == 0 || r2 != 0 || c != 1) {
			printf("L2: impl %d: rm twice returned %d,%d; count=%zu (expected 1,0,1)\n", impl, r1, r2, c);
			bad = 1;
		}
		k = qb_map_iter_next(it, &val);          /* node was freed by the second rm */
	}
	qb_map_iter_free(it);
	qb_map_destroy(m);
	return bad;
}

int main(void)
{
	int bad = 0;
	for (int impl = 0; impl < 3; impl++) {
		pid_t pid = fork();
		if (pid == 0) _exit(scenario(impl));
		int st = 0;
		waitpid(pid, &st, 0);
		int b = WIFSIGNALED(st) || (WIFEXITED(st) && WEXITSTATUS(st) != 0);
		printf("L2: impl %d (%s): %s (status 0x%x)\n", impl, impl == 0 ? "hashtable" : impl == 1 ? "skiplist" : "trie",
		       b ? "MISBEHAVES (wrong result or memory error)" : "ok", st);
		bad |= b;
	}
	if (bad) printf("L2: DEFECT REPRODUCED: removal under an open iterator corrupts the map / touches freed memory\n");
	else printf("L2: not reproduced\n");
	return bad;
}
