/*
 * L2 (public API) replay of finding C14-decode-literal-overflow.
 * qb_vsnprintf_deserialize() copies the literal text between directives with
 * memcpy() and appends "%%" without looking at str_len, and keeps adding snprintf's
 * would-be lengths to its position: a record whose text does not fit the caller's
 * buffer is written past its end.
 */
#include <stdio.h>
#include <stdlib.h>
#include <string.h>
#include <stdarg.h>
#include <unistd.h>
#include <sys/wait.h>
#include <qb/qblog.h>

static size_t ser(char *out, size_t max, const char *fmt, ...)
{
	va_list ap; va_start(ap, fmt);
	size_t r = qb_vsnprintf_serialize(out, max, fmt, ap);
	va_end(ap);
	return r;
}
static int one(const char *fmt, int arg, size_t str_len)
{
	pid_t pid = fork();
	if (pid == 0) {
		char rec[256];
		memset(rec, 0, sizeof rec);
		ser(rec, sizeof rec, fmt, arg);
		char *str = malloc(str_len);           /* exact size: ASan sees one byte too many */
		qb_vsnprintf_deserialize(str, str_len, rec);
		int ok = memchr(str, 0, str_len) != NULL;
		_exit(ok ? 0 : 3);
	}
	int st = 0; waitpid(pid, &st, 0);
	int bad = WIFSIGNALED(st) || (WIFEXITED(st) && WEXITSTATUS(st) != 0);
	printf("L2: decode of \"%s\" into %zu bytes: %s (status 0x%x)\n", fmt, str_len, bad ? "OUT OF BOUNDS / unterminated" : "ok", st);
	return bad;
}
int main(void)
{
	int bad = 0;
	bad |= one("a long literal text 100%% of it before %d", 5, 8);
	bad |= one("value=%d and more literal text after it", 7, 6);
	if (bad) printf("L2: DEFECT REPRODUCED: decoding writes beyond the caller's buffer\n");
	else printf("L2: not reproduced\n");
	return bad;
}
