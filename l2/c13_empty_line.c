/*
 * L2 (public API) replay of finding C13-empty-line-index.
 * qb_log_target_format() looks at output_buffer[output_buffer_idx - 1] to strip a
 * trailing newline; with an unsigned index of 0 (format "%b" and an empty
 * message, or an empty format) that is output_buffer[4294967295].
 */
#include <stdio.h>
#include <stdlib.h>
#include <unistd.h>
#include <sys/wait.h>
#include <qb/qblog.h>

static int run_case(const char *format, const char *message)
{
	pid_t pid = fork();
	if (pid == 0) {
		qb_log_init("l2", LOG_USER, LOG_EMERG);
		qb_log_ctl(QB_LOG_SYSLOG, QB_LOG_CONF_ENABLED, QB_FALSE);
		int32_t t = qb_log_file_open("/dev/null");
		if (t < 0) _exit(2);
		qb_log_filter_ctl(t, QB_LOG_FILTER_ADD, QB_LOG_FILTER_FILE, "*", LOG_TRACE);
		qb_log_format_set(t, format);
		qb_log_ctl(t, QB_LOG_CONF_ENABLED, QB_TRUE);
		qb_log(LOG_INFO, "%s", message);
		qb_log_fini();
		_exit(0);
	}
	int st = 0;
	waitpid(pid, &st, 0);
	if (WIFSIGNALED(st) || (WIFEXITED(st) && WEXITSTATUS(st) != 0 && WEXITSTATUS(st) != 2)) {
		printf("L2: format \"%s\" message \"%s\": logging crashed / memory error (status 0x%x)\n", format, message, st);
		return 1;
	}
	printf("L2: format \"%s\" message \"%s\": ok\n", format, message);
	return 0;
}

int main(void)
{
	int bad = 0;
	bad |= run_case("%b", "");     /* empty message: cs_format() reads str[-1] */
	bad |= run_case("", "x");      /* empty formatted line: qb_log_target_format() reads output_buffer[UINT_MAX] */
	if (bad) printf("L2: DEFECT REPRODUCED: an empty message / empty formatted line reads out of bounds\n");
	else printf("L2: not reproduced\n");
	return bad;
}
