/*
 * L2 (public API) replay of finding C09-timeout-int32.
 * With one timer >= 2^31 ms (24.9 days) ahead and nothing else to do,
 * qb_loop_run hands a NEGATIVE timeout to epoll_wait, i.e. "block for ever",
 * so the loop sleeps past the expiry.  epoll_wait is interposed here only to
 * record the timeout and stop the loop.
 */
#include <stdio.h>
#include <stdint.h>
#include <sys/epoll.h>
#include <qb/qbloop.h>

static qb_loop_t *l;
static int seen = 0, timeout_seen = 12345;
int epoll_wait(int epfd, struct epoll_event *ev, int maxev, int timeout)
{
	(void)epfd; (void)ev; (void)maxev;
	if (!seen) { seen = 1; timeout_seen = timeout; }
	qb_loop_stop(l);
	return 0;
}
static void cb(void *d) { (void)d; }

int main(void)
{
	qb_loop_timer_handle th;
	int bad = 0;
	uint64_t durs[] = { 30ULL * 24 * 3600 * 1000000000ULL /* 30 days */, 60ULL * 24 * 3600 * 1000000000ULL /* 60 days: > 2^32 ms */ };
	for (int i = 0; i < 2; i++) {
		l = qb_loop_create();
		seen = 0;
		if (qb_loop_timer_add(l, QB_LOOP_MED, durs[i], NULL, cb, &th) != 0) return 2;
		qb_loop_run(l);
		printf("L2: timer %llu ns ahead -> epoll_wait timeout %d ms\n", (unsigned long long)durs[i], timeout_seen);
		if (timeout_seen < 0) bad = 1;
		qb_loop_timer_del(l, th);
		qb_loop_destroy(l);
	}
	if (bad) printf("L2: DEFECT REPRODUCED: loop blocks indefinitely (negative epoll timeout) while a timer is pending\n");
	else printf("L2: not reproduced\n");
	return bad;
}
