/*
 * L2 (public API) replays of the C12 routing findings.
 *  case 1 (fixed): a call site first executed while its target is DISABLED never gets the
 *          target's stored filters applied: after the target is enabled the site stays silent
 *          (qb_log_callsite_get2 / qb_log_callsites_register replayed filters of ENABLED targets only).
 *  case 2 (fixed): qb_log_custom_close() -> qb_log_target_free() asks for CLEAR_ALL with a NULL
 *          text, which qb_log_filter_ctl2 rejects (-EINVAL): the closed target's stored filters
 *          and call-site bits survive and are inherited by the next target opened in that slot.
 *  case 3 (known finding C12-remove-overlap): FILTER_REMOVE clears the target bit of every
 *          KNOWN matching call site even though another stored filter still selects it (or
 *          nothing was stored under that text); a call site created afterwards gets the bit from
 *          the stored filters: routing depends on when the site was first executed.
 * usage: c12_routing [case]; without argument all cases run.
 */
#include <stdio.h>
#include <stdlib.h>
#include <string.h>
#include <qb/qblog.h>

static int got[QB_LOG_TARGET_MAX];
static void logger(int32_t t, struct qb_log_callsite *cs, struct timespec *ts, const char *msg)
{ (void)cs; (void)ts; (void)msg; got[t]++; }

static void site_a(void) { qb_log_from_external_source("f", "a.c", "x1", LOG_INFO, 10, 0); }
static void site_b(void) { qb_log_from_external_source("f", "a.c", "x2", LOG_INFO, 11, 0); }

static int case1(void)
{
	qb_log_init("l2", LOG_USER, LOG_EMERG);
	qb_log_ctl(QB_LOG_SYSLOG, QB_LOG_CONF_ENABLED, QB_FALSE);
	int32_t t = qb_log_custom_open(logger, NULL, NULL, NULL);
	qb_log_filter_ctl(t, QB_LOG_FILTER_ADD, QB_LOG_FILTER_FILE, "a.c", LOG_TRACE);
	site_a();                               /* first executed while the target is still disabled */
	qb_log_ctl(t, QB_LOG_CONF_ENABLED, QB_TRUE);
	got[t] = 0;
	site_a();                               /* selected by the stored filter, target enabled */
	site_b();                               /* same filter, site first executed after enabling */
	int a = got[t];
	qb_log_fini();
	printf("L2 case 1: delivered %d of 2 selected calls\n", a);
	return a != 2;
}
static int case2(void)
{
	qb_log_init("l2", LOG_USER, LOG_EMERG);
	qb_log_ctl(QB_LOG_SYSLOG, QB_LOG_CONF_ENABLED, QB_FALSE);
	int32_t t = qb_log_custom_open(logger, NULL, NULL, NULL);
	qb_log_filter_ctl(t, QB_LOG_FILTER_ADD, QB_LOG_FILTER_FILE, "a.c", LOG_TRACE);
	qb_log_ctl(t, QB_LOG_CONF_ENABLED, QB_TRUE);
	site_a();
	qb_log_custom_close(t);
	int32_t t2 = qb_log_custom_open(logger, NULL, NULL, NULL);   /* a NEW target: no filters of its own */
	int32_t rc = qb_log_filter_ctl(t2, QB_LOG_FILTER_ADD, QB_LOG_FILTER_FILE, "a.c", LOG_EMERG);
	qb_log_filter_ctl(t2, QB_LOG_FILTER_REMOVE, QB_LOG_FILTER_FILE, "a.c", LOG_EMERG);
	qb_log_ctl(t2, QB_LOG_CONF_ENABLED, QB_TRUE);
	got[t2] = 0;
	site_a(); site_b();
	int a = got[t2];
	qb_log_fini();
	printf("L2 case 2: new target in slot %d (old %d): add of a fresh filter returned %d, %d calls delivered without any filter (expected 0, 0)\n", t2, t, rc, a);
	return a != 0 || rc != 0;
}
static int case3(void)
{
	qb_log_init("l2", LOG_USER, LOG_EMERG);
	qb_log_ctl(QB_LOG_SYSLOG, QB_LOG_CONF_ENABLED, QB_FALSE);
	int32_t t = qb_log_custom_open(logger, NULL, NULL, NULL);
	qb_log_ctl(t, QB_LOG_CONF_ENABLED, QB_TRUE);
	qb_log_filter_ctl(t, QB_LOG_FILTER_ADD, QB_LOG_FILTER_FUNCTION, "f", LOG_TRACE);
	qb_log_filter_ctl(t, QB_LOG_FILTER_ADD, QB_LOG_FILTER_FILE, "a.c", LOG_TRACE);
	site_a();                               /* known before the removal */
	qb_log_filter_ctl(t, QB_LOG_FILTER_REMOVE, QB_LOG_FILTER_FILE, "a.c", LOG_TRACE);
	got[t] = 0;
	site_a();                               /* still selected by FUNCTION "f" */
	int a = got[t];
	site_b();                               /* same file and function, first executed after the removal */
	int b = got[t] - a;
	qb_log_fini();
	printf("L2 case 3: site known before the removal delivered %d, site created after it delivered %d (same filters select both)\n", a, b);
	return a != b;
}
int main(int argc, char **argv)
{
	int which = argc > 1 ? atoi(argv[1]) : 0, bad = 0;
	if (which == 0 || which == 1) bad |= case1();
	if (which == 0 || which == 2) bad |= case2();
	if (which == 0 || which == 3) bad |= case3();
	if (bad) printf("L2: DEFECT REPRODUCED\n"); else printf("L2: not reproduced\n");
	return bad;
}
