/*
 * L2 (public API) replay of finding C17-abandoned-iter-ref.
 * qb_map_foreach() whose callback stops early (or any iterator freed before the
 * end) leaves the iterator's reference on the current node behind in the
 * hashtable and the skiplist; the node's value then never "leaves the map":
 * neither rm nor destroy delivers QB_MAP_NOTIFY_DELETED / QB_MAP_NOTIFY_FREE for it.
 */
#include <stdio.h>
#include <stdint.h>
#include <qb/qbmap.h>

static int deleted, freed;
static void cb(uint32_t ev, char *k, void *o, void *v, void *u)
{
	(void)k; (void)o; (void)v; (void)u;
	if (ev == QB_MAP_NOTIFY_DELETED) deleted++;
	if (ev == QB_MAP_NOTIFY_FREE) freed++;
}
static int32_t stop(const char *k, void *v, void *u) { (void)k; (void)v; (void)u; return 1; }

int main(void)
{
	int bad = 0;
	static int val = 7;
	for (int impl = 0; impl < 3; impl++) {
		qb_map_t *m = impl == 0 ? qb_hashtable_create(8) : impl == 1 ? qb_skiplist_create() : qb_trie_create();
		deleted = freed = 0;
		qb_map_notify_add(m, NULL, cb, QB_MAP_NOTIFY_DELETED | QB_MAP_NOTIFY_FREE | (impl == 2 ? QB_MAP_NOTIFY_RECURSIVE : 0), NULL);
		qb_map_put(m, "a", &val);
		qb_map_foreach(m, stop, NULL);     /* abandoned after the first entry */
		qb_map_destroy(m);
		printf("L2: impl %d: after abandoned foreach + destroy: DELETED=%d FREE=%d (expected 1/1)\n", impl, deleted, freed);
		if (deleted != 1 || freed != 1) bad = 1;
	}
	if (bad) printf("L2: DEFECT REPRODUCED: value of the entry an abandoned iteration stopped on is never released\n");
	else printf("L2: not reproduced\n");
	return bad;
}
