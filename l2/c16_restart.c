/*
 * L2 (public API) replay of finding C16-restart-no-worker.
 * qb_log_thread_stop() (called by qb_log_fini) joins the worker and destroys its lock and
 * semaphores but leaves wthread_active/wthread_should_exit set and logt_wthread_lock
 * dangling; after qb_log_init() again, qb_log_thread_start() returns 0 without creating
 * a thread, and the next threaded log call locks a freed lock and queues a message that
 * nobody writes.
 */
#include <stdio.h>
#include <stdlib.h>
#include <string.h>
#include <unistd.h>
#include <sys/wait.h>
#include <qb/qblog.h>

static int written;
static void logger(int32_t t, struct qb_log_callsite *cs, struct timespec *ts, const char *msg)
{ (void)t; (void)cs; (void)ts; if (strstr(msg, "hello")) written++; }

static int round_trip(void)
{
	qb_log_init("l2", LOG_USER, LOG_EMERG);
	qb_log_ctl(QB_LOG_SYSLOG, QB_LOG_CONF_ENABLED, QB_FALSE);
	int32_t t = qb_log_custom_open(logger, NULL, NULL, NULL);
	qb_log_filter_ctl(t, QB_LOG_FILTER_ADD, QB_LOG_FILTER_FILE, "*", LOG_TRACE);
	qb_log_ctl(t, QB_LOG_CONF_THREADED, QB_TRUE);
	qb_log_ctl(t, QB_LOG_CONF_ENABLED, QB_TRUE);
	qb_log_thread_start();
	int before = written;
	qb_log(LOG_INFO, "hello %d", 1);
	qb_log_fini();                          /* must return only after the message was written */
	return written - before;
}
int main(void)
{
	pid_t pid = fork();
	if (pid == 0) {
		int a = round_trip();
		int b = round_trip();           /* re-initialisation */
		printf("L2: messages written: first life %d, second life %d (expected 1, 1)\n", a, b);
		_exit((a == 1 && b == 1) ? 0 : 3);
	}
	int st = 0; waitpid(pid, &st, 0);
	int bad = WIFSIGNALED(st) || (WIFEXITED(st) && WEXITSTATUS(st) != 0);
	if (bad) printf("L2: DEFECT REPRODUCED: threaded logging does not work after re-initialisation (status 0x%x)\n", st);
	else printf("L2: not reproduced\n");
	return bad;
}
