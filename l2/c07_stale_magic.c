/*
 * L2 (public API) replay of finding C07-stale-magic.
 * A semaphore-less ring decides "is there a chunk?" only by looking for the
 * marker 0xA1A1A1A1 in the word after read_pt.  Payload of an earlier lap is
 * never cleared, so once the ring has been lapped with payload words equal to
 * the marker, a read on the EMPTY ring returns a chunk nobody wrote.
 */
#include <stdio.h>
#include <string.h>
#include <stdint.h>
#include <errno.h>
#include <unistd.h>
#include <qb/qbrb.h>

int main(void)
{
	char name[64];
	uint32_t pay[250];
	char out[4096];
	snprintf(name, sizeof name, "verif-l2-c07-%d", (int)getpid());
	qb_ringbuffer_t *rb = qb_rb_open(name, 1000, QB_RB_FLAG_CREATE | QB_RB_FLAG_NO_SEMAPHORE, 0);
	if (!rb) { perror("qb_rb_open"); return 2; }
	for (int i = 0; i < 250; i++) pay[i] = 0xA1A1A1A1u;
	int bad = 0;
	for (int it = 0; it < 60 && !bad; it++) {
		ssize_t w = qb_rb_chunk_write(rb, pay, sizeof pay);
		if (w != (ssize_t)sizeof pay) { printf("L2: write refused %zd\n", w); break; }
		ssize_t r = qb_rb_chunk_read(rb, out, sizeof out, 0);
		if (r != (ssize_t)sizeof pay) { printf("L2: read %zd\n", r); break; }
		/* ring is empty now */
		r = qb_rb_chunk_read(rb, out, sizeof out, 0);
		if (r != -ETIMEDOUT) {
			printf("L2: DEFECT REPRODUCED: read on empty ring after %d write/read pairs returned %zd (a chunk nobody wrote)\n", it + 1, r);
			bad = 1;
		}
	}
	qb_rb_close(rb);
	if (!bad) printf("L2: not reproduced\n");
	return bad ? 1 : 0;
}
