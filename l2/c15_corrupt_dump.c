/*
 * L2 (public API) replay of findings C15-truncated-header-assert, C15-pointer-range,
 * C15-message-off-by-one: qb_log_blackbox_print_from_file() on damaged dump files.
 */
#include <stdio.h>
#include <stdlib.h>
#include <string.h>
#include <stdint.h>
#include <unistd.h>
#include <fcntl.h>
#include <sys/wait.h>
#include <qb/qblog.h>

static int run_print(const char *path)
{
	pid_t pid = fork();
	if (pid == 0) {
		int devnull = open("/dev/null", O_WRONLY);
		dup2(devnull, 1);
		int r = qb_log_blackbox_print_from_file(path);
		(void)r;
		_exit(0);
	}
	int st = 0; waitpid(pid, &st, 0);
	return WIFSIGNALED(st) || (WIFEXITED(st) && WEXITSTATUS(st) != 0);
}
static void write_file(const char *path, const void *d, size_t n)
{
	int fd = open(path, O_CREAT | O_TRUNC | O_WRONLY, 0600);
	if (write(fd, d, n) != (ssize_t)n) _exit(2);
	close(fd);
}
int main(void)
{
	char path[64];
	int bad = 0, b;
	snprintf(path, sizeof path, "/tmp/verif-l2-c15-%d", (int)getpid());

	/* 1. a new-format dump cut inside the ring header: 20-byte blackbox header + 8 bytes */
	uint32_t cut[7] = { 0, 0xCCBBCCBB, 0xBBCCBBCC, 2, 0, /* ring header: word_size, write_pt, then nothing */ 2, 0 };
	write_file(path, cut, sizeof cut);
	b = run_print(path); printf("L2: dump truncated inside the ring header (28 bytes): %s\n", b ? "CRASH" : "ok"); bad |= b;

	/* 2. read pointer beyond the ring: word_size 1024, read_pt = file size (passes the old '<= st_size' test) */
	{
		size_t words = 1024, n = 5 + words;
		uint32_t *f = calloc(n, 4);
		f[0] = words; f[1] = 0 /* write_pt */; f[2] = (uint32_t)(n * 4) /* read_pt */; f[3] = 1; f[4] = f[0] + f[1] + f[2] + f[3];
		f[5 + ((f[2] + 1) % words)] = 0xA1A1A1A1u;      /* the marker word is looked up modulo word_size, the size word is not */
		write_file(path, f, n * 4);
		free(f);
		b = run_print(path); printf("L2: read_pt outside the ring: %s\n", b ? "CRASH / memory error" : "ok"); bad |= b;
	}

	/* 3. a valid dump holding one small record whose decoded text is longer than 511 characters */
	{
		pid_t pid = fork();
		if (pid == 0) {

			qb_log_init("l2", LOG_USER, LOG_EMERG);
			qb_log_ctl(QB_LOG_SYSLOG, QB_LOG_CONF_ENABLED, QB_FALSE);
			qb_log_filter_ctl(QB_LOG_BLACKBOX, QB_LOG_FILTER_ADD, QB_LOG_FILTER_FILE, "*", LOG_TRACE);
			qb_log_ctl(QB_LOG_BLACKBOX, QB_LOG_CONF_SIZE, 8192);
			qb_log_ctl(QB_LOG_BLACKBOX, QB_LOG_CONF_ENABLED, QB_TRUE);
			qb_log(LOG_INFO, "%400d%400d", 1, 2);        /* 19-byte record, 800 characters of text */
			qb_log_blackbox_write_to_file(path);
			qb_log_fini();
			_exit(0);
		}
		int st; waitpid(pid, &st, 0);
		b = run_print(path); printf("L2: record that decodes to more than 511 characters: %s\n", b ? "CRASH / memory error" : "ok"); bad |= b;
	}
	unlink(path);
	if (bad) printf("L2: DEFECT REPRODUCED: printing a damaged / long-record dump crashes\n");
	else printf("L2: not reproduced\n");
	return bad;
}
