from engine import Obl

META = {
 "level_text": "CBMC symbolic execution of the real lib/log.c (whole unit), lib/log_dcs.c and lib/array.c over EVERY history of 2-3 (quick) / 3-4 (thorough) configuration and logging operations on a custom target (families: from the freshly opened target; after enabling it; after enabling it and executing every call site once), followed by one log call from each of three call sites: alphabet {log from a site, log from all sites, enable, disable, add filter (file, '*' with a priority window, function with comma alternatives, format substring; thorough: file regex, format '*'), remove filter, clear all, close and reopen the target, set a tag filter; thorough: clear tags, disable syslog}. A reference model (stored filter list per target, reference matcher written from qblog.h) decides for every log call and every open target whether the recording logger must be invoked (exactly once) or not at all, and the tag value it must see.",
 "level_note": "Call sites live in ONE 16-element bin of the dynamic call-site array (a second bin = second registered section did not finish in 200 s per scenario). Histories, call sites and filter texts are scenario constants (exhaustive for the alphabet and length; 3 call sites, 7 filter texts); symbolic file names / formats are not covered. Regular expressions are a contract stub (pattern without metacharacters = substring). The logging thread, formatting and the static call-site section of the linker are not included (call sites are dynamic, qb_log_from_external_source). Trusted: CBMC, the libc string models in the harness.",
 "technique": "CBMC bounded symbolic execution (SAT) of real C code over an exhaustive table of constant configuration histories; reference routing model as oracle",
 "assumptions": ["allocation never fails", "single-threaded use"],
}
SIZES = {1: 8, 2: 12, 3: 18}
def obligations(tier):
    # (alphabet level, history length, target enabled first?, parts)
    # pre: 0 = none, 1 = target enabled first, 2 = target enabled and every call site executed once first
    # base: number of dynamic call sites created before the history (0: the three sites are slots 0-2 of the first bin;
    #       13: slots 13-15, the last slot of the bin included).  A second bin (base 15) is outside the bound: with two
    #       registered sections symbolic execution of the section-list loops did not finish in 200 s per scenario.
    fams = [(1, 3, 0, 20, 0), (2, 2, 2, 6, 13), (2, 2, 0, 6, 13)] if tier == "quick" else \
           [(2, 3, 0, 16, 0), (2, 3, 1, 16, 13), (2, 3, 2, 16, 13), (3, 2, 0, 4, 13), (3, 3, 0, 48, 0), (1, 4, 0, 32, 13), (1, 4, 2, 32, 13)]
    obs = []
    for lvl, nops, pre, parts, base in fams:
        alpha = SIZES[lvl]
        total = alpha ** nops
        per = (total + parts - 1) // parts
        for part in range(parts):
            n = min(per, total - part * per)
            if n <= 0: break
            obs.append(Obl("route-A%d-N%d%s-part%d" % (alpha, nops, ("", "-en", "-enlog")[pre], part), "c12_route.c",
                           defs=["NOPS=%d" % nops, "SC_BASE=%d" % (part * per), "ALPHABET=%d" % lvl] + (["PRELOAD_ENABLED"] if pre else []) + (["PRELOAD_KNOWN"] if pre == 2 else []) + (["SITE_BASE=%d" % base] if base else []),
                           unwind=34, n_entries=n, timeout=120, mem_gb=4, object_bits=10, flags=["--max-field-sensitivity-array-size", "520"],
                           kf=["C12-remove-overlap"],
                           bounds={"history_length": nops, "alphabet": alpha, "prefix": ("none", "enable", "enable, log from every site")[pre], "scenarios": "%d..%d of %d" % (part * per, part * per + n - 1, total), "call_sites": 3, "call_site_slots": "%d..%d" % (base, base + 2), "targets": "syslog + 1 custom"},
                           units=["lib/log.c", "lib/log_dcs.c"],
                           stubs=["qb_array: contract model over typed static storage", "syslog/stderr/blackbox open = recording logger", "log_thread/log_format/clock: empty", "regcomp/regexec: substring contract", "vsnprintf: one-character message", "pthread_rwlock: no-ops", "seqenv.h"]))
    return obs
