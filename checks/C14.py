from engine import Obl

META = {
 "level_text": "CBMC bounded model checking of the real qb_vsnprintf_serialize / qb_vsnprintf_deserialize (lib/log_format.c with lib/strlcpy.c, lib/strlcat.c) for a table of 15 numeric/pointer/char/'*'/literal/'%%' formats: the record buffer has EXACTLY max_len bytes (6, 12 or 24) and the decode buffer exactly str_len bytes (symbolic 1..16); all argument values are symbolic over their full range, as is the text length libc reports per directive. SAT decides: encode never writes outside the reserved space and reports <= max_len; decode of every non-truncated record stays inside the caller's buffer and terminates it; the arguments decode hands to snprintf equal the original ones (directive-level faithfulness).",
 "level_note": "Format strings are scenario constants: a symbolic format makes CBMC unwind the parser's nine 'goto reprocess' back-edges as nested loops (no result in 200 s). String directives (%s, %.Ns, several %s) are NOT decided: with a symbolic or constant string argument the scenarios did not finish in 100 s (the suspected defects there - precision state carried across directives, location passing max_len after a truncated %s - are listed in DESIGN.md as not decided). libc's own formatting is a contract stub, so 'same text as printf' is relative to printf's compositionality. Trusted: CBMC, strchrnul reference model.",
 "technique": "CBMC bounded model checking (SAT) of real C code over a table of constant format strings with symbolic arguments and exact-size buffers",
 "assumptions": ["allocation never fails", "records that did not fit (encode returned max_len) are not decoded, as in _blackbox_vlogger"],
}
# entry index of the harness table (after the SKIP_STRINGS renumbering in c14_formats.c) -> format string
FORMATS = {0: "plain", 1: "%d", 2: "a%ub", 3: "%-5x", 4: "%ld", 5: "%lld", 6: "%zu", 7: "%f", 8: "%.2e", 9: "%c",
           10: "%p", 11: "100%%", 12: "%*d", 13: "abc%d%c", 14: "abcdefghijklmno%d%c"}
# One table, max_len an obligation constant, split into groups of scenarios that are decided on different cores.
# Measured on an idle machine (cbmc 6.11, per scenario): 14-19 s for the one-directive formats, 1-2 s for the
# directive-free ones, 95 s for "abc%d%c" at max_len 24 (two directives decoded with room to spare), which is why
# that scenario is an obligation of its own.  The per-scenario budget is the engine's floor (900 s), ~9 x the slowest
# measurement: the former 120 s budget was 1.26 x and was exceeded on a slower run of the unchanged tree.
GROUPS = [("two-directives", [13, 14]), ("int", [1, 2, 3, 12]), ("long", [4, 5, 6, 10]), ("dbl-chr-lit", [7, 8, 9, 0, 11])]
def obligations(tier):
    obs = []
    for ml in ([12, 24] if tier == "quick" else [6, 12, 24]):
        for gname, idxs in GROUPS:
            obs.append(Obl("formats-maxlen%d-%s" % (ml, gname), "c14_formats.c",
                           defs=["MAXLEN_CONST=%d" % ml, "SLEN_CONST=3", "SKIP_STRINGS", "VERIF_WITNESS_ALL"],
                           unwind=26, n_entries=16, entries=idxs, expect_unreached="^W:(decoded|encoded)",
                           timeout=900, mem_gb=4,
                           bounds={"formats": ", ".join(FORMATS[i] for i in sorted(idxs)) +
                                              (" (a %c reached with the record exactly full at max_len 12 / 24)" if 13 in idxs else ""),
                                   "max_len": ml, "str_len": "1..16", "arguments": "full range"},
                           units=["lib/log_format.c", "lib/strlcpy.c", "lib/strlcat.c"],
                           stubs=["snprintf = recorder + bounded writer", "strchrnul reference model"]))
    return obs
