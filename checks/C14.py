from engine import Obl

META = {
 "level_text": "CBMC bounded model checking of the real qb_vsnprintf_serialize / qb_vsnprintf_deserialize (lib/log_format.c with lib/strlcpy.c, lib/strlcat.c) for a table of 15 numeric/pointer/char/'*'/literal/'%%' formats: the record buffer has EXACTLY max_len bytes (6, 12 or 24, one obligation each) and the decode buffer exactly str_len bytes (symbolic 1..16); all argument values are symbolic over their full range, as is the text length libc reports per directive. SAT decides: encode never writes outside the reserved space and reports <= max_len; decode of every non-truncated record stays inside the caller's buffer and terminates it; the arguments decode hands to snprintf equal the original ones (directive-level faithfulness).",
 "level_note": "Format strings are scenario constants: a symbolic format makes CBMC unwind the parser's nine 'goto reprocess' back-edges as nested loops (no result in 200 s). String directives (%s, %.Ns, several %s) are NOT decided: with a symbolic or constant string argument the scenarios did not finish in 100 s (the suspected defects there - precision state carried across directives, location passing max_len after a truncated %s - are listed in DESIGN.md as not decided). libc's own formatting is a contract stub, so 'same text as printf' is relative to printf's compositionality. Trusted: CBMC, strchrnul reference model.",
 "technique": "CBMC bounded model checking (SAT) of real C code over a table of constant format strings with symbolic arguments and exact-size buffers",
 "assumptions": ["allocation never fails", "records that did not fit (encode returned max_len) are not decoded, as in _blackbox_vlogger"],
}
FAST = [0, 1, 2, 3, 4, 5, 6, 7, 8, 9, 13, 14, 15]
def obligations(tier):
    obs = []
    for ml in ([12, 24] if tier == "quick" else [6, 12, 24]):
        # scenario indices are contiguous in the harness table; string scenarios are skipped through SKIP_STRINGS
        obs.append(Obl("formats-maxlen%d" % ml, "c14_formats.c", defs=["MAXLEN_CONST=%d" % ml, "SLEN_CONST=3", "SKIP_STRINGS", "VERIF_WITNESS_ALL"],
                       unwind=26, n_entries=16, expect_unreached="^W:(decoded|encoded)",
                       timeout=120, mem_gb=4,
                       bounds={"formats": "plain, %d, a%ub, %-5x, %ld, %lld, %zu, %f, %.2e, %c, %p, 100%%, %*d, abc%d%c, abcdefghijklmno%d%c (a %c reached with the record exactly full at max_len 12 / 24)", "max_len": ml, "str_len": "1..16", "arguments": "full range"},
                       units=["lib/log_format.c", "lib/strlcpy.c", "lib/strlcat.c"], stubs=["snprintf = recorder + bounded writer", "strchrnul reference model"]))
    return obs
