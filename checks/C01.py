from engine import Obl

META = {
 "level_text": "Two complementary encodings of the real lib/ringbuffer.c. (1) Sequentialised, one preemption: from an ARBITRARY ring state representing an arbitrary ghost FIFO (any read position, old contents, lengths 0..9 incl. non-multiples of 4, full/empty/wrapping), one party runs a complete operation while the other is suspended at a symbolic one of 14 scheduling points placed between every pair of accesses to write_pt/read_pt/size word/marker word/payload (QB_VERIF_YIELD hooks); followed by a sequential drain; decided by SAT for all states, lengths, payloads and scheduling points; replays natively. (2) Bounded model checking with CBMC's native thread encoding (partial-order, sequential consistency): one writer thread performing NW qb_rb_chunk_write calls with symbolic lengths/payloads runs concurrently with a reader performing NR qb_rb_chunk_read calls on the real lib/ringbuffer.c (semaphore-less ring of W=6 words, arbitrary start position so every wrap offset occurs); every interleaving of the accesses to write_pt, read_pt, size word, marker word and payload words is a solver variable. After the join a sequential drain follows; the oracle demands that the successful reads, in order, are exactly the successful writes, in order, byte-identical, that failed reads are -ETIMEDOUT and writes return len or -EAGAIN.",
 "level_note": "Encoding (1) covers only schedules with ONE preemption (a complete operation of the other party inside one operation); more context switches are covered only by (2) at its much smaller bound. CBMC's thread mode treats the ring data array as ONE shared variable when indices are symbolic (whole-array read-modify-write): this over-approximates (a pass is still a valid bounded proof, a failure may be spurious - a pre-filled variant of (2) produced such a spurious lost update and is therefore not registered). Trusted: CBMC's SC thread encoding; __atomic_load_n/__atomic_store_n mapped to plain accesses (acquire/release annotations and weaker-than-SC reorderings are NOT checked); payload copied in whole 32-bit words and as one atomic block (ordering bugs that let the reader see a chunk during the copy also let it see the chunk before the copy started, and old != new payload is symbolic); pointer checks off in this mode (memory safety: C07). Bounds: <= 2 writes x <= 2 reads, payload <= 4 (quick) / 8 bytes, W = 6. The semaphore variant and peek/reclaim, alloc/commit variants are outside the quick tier.",
 "technique": "CBMC bounded model checking of the real C code with native threads (partial-order encoding of all interleavings, SAT)",
 "assumptions": ["sequential consistency", "one writer, one reader (the API's contract)"],
}
def mk(nw, nr, pl, tmo):
    return Obl("threads-W%d-R%d-PL%d" % (nw, nr, pl), "c01_threads.c", defs=["NW=%d" % nw, "NR=%d" % nr, "PL=%d" % pl, "ATOMIC_PAYLOAD", "RING_W=6"],
               unwind=max(8, pl + 2), checks="nopointer", flags=["--no-bounds-check", "--no-div-by-zero-check"], replay=False,
               timeout=tmo, mem_gb=12,
               bounds={"writes": nw, "reads": nr, "payload_bytes_max": pl, "ring_words": 6, "start_position": "any", "memory_model": "SC"},
               units=["lib/ringbuffer.c"], stubs=["word-granular circular memcpy", "logging macros empty", "__atomic_*_n plain"])
def yl(mode, W, sem, K=2, L=9):
    return Obl("yield-%s-W%d-%s" % ("reader-preempted" if mode == 0 else "writer-preempted", W, "sem" if sem else "nosem"), "c01_yield.c",
               defs=["MODE=%d" % mode, "RING_W=%d" % W, "RING_K=%d" % K, "RING_L=%d" % L, "RING_SEM=%d" % sem, "VERIF_WITNESS_ALL"],
               unwind=max(L + 2, W + 1, K + 3), timeout=1200, mem_gb=8, object_bits=10,
               bounds={"preempted": "reader" if mode == 0 else "writer", "scheduling_points": 14, "preemptions": 1, "W_words": W, "K_queued": K,
                       "L_max_len": L, "semaphore": bool(sem), "pre_state": "arbitrary Rep-state"},
               units=["lib/ringbuffer.c (with -DQB_VERIF_HOOKS)"], stubs=["verif_ring_memcpy (circular mapping)", "nolog.h", "notifier = counter semaphore"])
def obligations(tier):
    if tier == "quick":
        return [yl(0, 6, 0), yl(1, 6, 0), yl(0, 8, 0), yl(1, 8, 1), mk(1, 1, 4, 900)]
    return [yl(m, W, s) for m in (0, 1) for W in (6, 7, 8, 10) for s in (0, 1)] + [mk(1, 1, 4, 1800), mk(1, 1, 8, 1800)]
