from engine import Obl

META = {
 "level_text": "Bounded model checking with CBMC's native thread encoding (partial-order, sequential consistency): one writer thread performing NW qb_rb_chunk_write calls with symbolic lengths/payloads runs concurrently with a reader performing NR qb_rb_chunk_read calls on the real lib/ringbuffer.c (semaphore-less ring of W=6 words, arbitrary start position so every wrap offset occurs); every interleaving of the accesses to write_pt, read_pt, size word, marker word and payload words is a solver variable. After the join a sequential drain follows; the oracle demands that the successful reads, in order, are exactly the successful writes, in order, byte-identical, that failed reads are -ETIMEDOUT and writes return len or -EAGAIN.",
 "level_note": "Trusted: CBMC's SC thread encoding; __atomic_load_n/__atomic_store_n mapped to plain accesses (acquire/release annotations and weaker-than-SC reorderings are NOT checked); payload copied in whole 32-bit words and as one atomic block (ordering bugs that let the reader see a chunk during the copy also let it see the chunk before the copy started, and old != new payload is symbolic); pointer checks off in this mode (memory safety: C07). Bounds: <= 2 writes x <= 2 reads, payload <= 4 (quick) / 8 bytes, W = 6. The semaphore variant and peek/reclaim, alloc/commit variants are outside the quick tier.",
 "technique": "CBMC bounded model checking of the real C code with native threads (partial-order encoding of all interleavings, SAT)",
 "assumptions": ["sequential consistency", "one writer, one reader (the API's contract)"],
}
def mk(nw, nr, pl, tmo):
    return Obl("threads-W%d-R%d-PL%d" % (nw, nr, pl), "c01_threads.c", defs=["NW=%d" % nw, "NR=%d" % nr, "PL=%d" % pl, "ATOMIC_PAYLOAD", "RING_W=6"],
               unwind=max(8, pl + 2), checks="nopointer", flags=["--no-bounds-check", "--no-div-by-zero-check"], replay=False,
               timeout=tmo, mem_gb=12,
               bounds={"writes": nw, "reads": nr, "payload_bytes_max": pl, "ring_words": 6, "start_position": "any", "memory_model": "SC"},
               units=["lib/ringbuffer.c"], stubs=["word-granular circular memcpy", "logging macros empty", "__atomic_*_n plain"])
def obligations(tier):
    if tier == "quick":
        return [mk(1, 1, 4, 900), mk(1, 1, 8, 900)]
    return [mk(1, 1, 4, 1800), mk(1, 1, 8, 1800), mk(2, 1, 4, 7200), mk(1, 2, 4, 7200), mk(2, 2, 4, 14000)]
