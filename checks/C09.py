from engine import Obl

META = {
 "level_text": "Bounded model checking of the real timer code (lib/loop_timerlist.c, include/tlist.h, qb_loop_run of lib/loop.c) with the clock as a symbolic variable: every 64-bit duration, every non-decreasing clock sequence below 2^62 ns, tick rates {100,250,1000,1e9} Hz; asserts no early dispatch (65-bit ghost arithmetic), expiry order, remaining/is_running agreement and the bound on the timeout handed to the poll source. Heap order is decided for all add/delete/expire histories of up to 5 timers with symbolic expiries.",
 "level_note": "Trusted: CBMC, clock stub contract (non-decreasing, <2^62 ns i.e. 146 years), sequential mutex/lock stubs, capacity-bounded realloc model. Outside: more than 5 simultaneously pending timers, absolute (epoch) timers, scheduler latency between wake-up and dispatch.",
 "technique": "CBMC bounded model checking (SAT) of real C code with symbolic clock and full-width symbolic durations",
 "assumptions": ["clock non-decreasing and below 2^62 ns", "allocation never fails"],
}
UNITS = ["lib/loop_timerlist.c", "include/tlist.h", "lib/loop.c", "lib/array.c"]
STUBS = ["qb_util_nano_current_get = symbolic non-decreasing clock", "qb_util_nano_monotonic_hz in {100,250,1000,1e9}",
         "pthread_seq.h", "seqenv.h", "cap_realloc.h", "nolog.h", "fd/job sources = harness stubs"]

def obligations(tier):
    obs = []
    combos = [(1, 1, 250), (1, 1, 1000000000)] if tier == "quick" else [(1, 1, 100), (1, 1, 250), (1, 1, 1000), (1, 1, 1000000000)]   # NT=2: > 600 s (measured), multi-timer behaviour is decided by heapstep/heap obligations
    for nt, it, hz in combos:
        depth = {1: 0, 2: 1, 3: 1, 4: 2, 5: 2}[nt]
        obs.append(Obl("timer-NT%d-IT%d-HZ%d" % (nt, it, hz), "c09_timer.c", defs=["NT=%d" % nt, "ITER=%d" % it, "HZ=%d" % hz, "VERIF_WITNESS_ALL"], solver="cvc5-int", expect_unreached="^W:a timer fired",
                       unwind=max(nt, it, 3) + 1,
                       unwindset={"qb_loop_timer_add.0": 2, "verif_realloc": 9, "_grow_bin_array": 4,
                                  "timerlist_expire.0": nt + 1, "timerlist_heap_sift_down.0": depth + 2,
                                  "timerlist_heap_sift_up.0": depth + 1, "qb_loop_run.6": 4, "qb_loop_run.7": it + 1,
                                  "qb_loop_run_level": nt + 1, "_get_empty_array_position_.0": nt + 1,
                                  "verif_mtx_find": 4},
                       timeout=600, mem_gb=8, bounds={"timers": nt, "loop_iterations": it, "tick_hz": hz, "duration": "all 2^64", "clock": "< 2^62, non-decreasing"},
                       units=UNITS, stubs=STUBS, kf=["C09-expiry-wrap", "C09-timeout-int32"]))
    for k, k2 in ([] if tier == "quick" else [(2, 1), (3, 1)]):
        kt = k + k2
        depth = {1: 0, 2: 1, 3: 1, 4: 2, 5: 2, 6: 2, 7: 2}[kt]
        obs.append(Obl("heap-K%d+%d" % (k, k2), "c09_heap.c", defs=["K=%d" % k, "K2=%d" % k2, "VERIF_WITNESS_ALL"],
                       unwind=kt + 1,
                       unwindset={"verif_realloc": 9, "timerlist_expire.0": kt + 1, "timerlist_heap_sift_down.0": depth + 2,
                                  "timerlist_heap_sift_up.0": depth + 1, "timerlist_debug_is_valid_heap.0": kt + 1,
                                  "verif_mtx_find": 3},
                       timeout=3000, mem_gb=12,
                       bounds={"timers_first_batch": k, "timers_second_batch": k2, "deleted": "any subset of first batch",
                               "durations": "all 2^64", "clock": "< 2^62, non-decreasing", "expire_passes": 2},
                       units=["include/tlist.h"], stubs=STUBS))
    for hn in ([7] if tier == "quick" else [3, 7, 15]):
        depth = {3: 2, 7: 3, 15: 4}[hn]
        obs.append(Obl("heapstep-N%d" % hn, "c09_heapstep.c", defs=["HEAPN=%d" % hn, "VERIF_WITNESS_ALL"],
                       unwind=hn + 3,
                       unwindset={"timerlist_heap_sift_down.0": depth + 1, "timerlist_heap_sift_up.0": depth + 1, "verif_mtx_find": 3},
                       timeout=900, mem_gb=8,
                       bounds={"heap_entries": "0..%d" % hn, "expiries": "all 2^64", "ops": "one del (any position) or one add", "shape": "inductive step"},
                       units=["include/tlist.h"], stubs=["pthread_seq.h"]))
    return obs
