from engine import Obl

META = {
 "level_text": "CBMC bounded model checking of the real qb_log_blackbox_print_from_file (lib/log_blackbox.c) with qb_rb_create_from_file / qb_rb_open_2 / qb_rb_chunk_read / _rb_chunk_reclaim / qb_rb_close (lib/ringbuffer.c) on an ARBITRARY file: every byte of a file of every length up to 88 bytes is symbolic (old- and new-format dump header, ring header incl. read/write pointers, version, hash, all data words = chunk size words, markers, record fields). SAT decides for all such files: the call returns (all loops bounded, unwinding assertions), no out-of-bounds access in the ring data, the 1024-byte chunk buffer, message[] or the header structs, the descriptor is closed and the temporary ring files are unlinked.",
 "level_note": "Bounds/assumptions: the ring's word_size field is assumed to be the model ring (12 words, page size 16) so that qb_rb_open runs for real without a symbolic allocation; chunk size words in (48, 1024] are assumed away (a real ring is >= 4096 bytes, larger than the 1024-byte chunk buffer; the model ring is not). qb_vsnprintf_deserialize is replaced by its contract (terminates inside str_len, returns 1..str_len): the real decoder on arbitrary bytes ran > 10 min; its own memory safety is C14's subject (numeric formats only), so over-reads of the decoder on hostile record bytes are NOT decided. The round-trip clause of C15 (write_to_file then print reproduces every record) is NOT decided.",
 "technique": "CBMC bounded model checking (SAT) of the real C parser on a fully symbolic file image; CBMC bounds/pointer checks + cleanup oracle",
 "assumptions": ["regular file: read() returns min(n, remaining)", "allocation never fails", "libc text output stubbed"],
}
def obligations(tier):
    return [Obl("print-W12", "c15_print.c", defs=["RING_W=12"], unwind=14, object_bits=11,
                unwindset={"verif_read": 90, "verif_ring_memcpy": 50, "verif_snprintf": 21, "qb_log_blackbox_print_from_file.0": 3,
                           "qb_log_blackbox_print_from_file.1": 3, "qb_log_blackbox_print_from_file.2": 5, "qb_vsnprintf_deserialize": 514},
                timeout=1500, mem_gb=16,
                bounds={"file_bytes": "0..88, all symbolic", "ring_words": 12, "page_size": 16},
                units=["lib/log_blackbox.c", "lib/ringbuffer.c"],
                stubs=["open/read/lseek/fstat/close over a symbolic byte array", "mmap/munmap/unlink/sysconf model", "decoder contract stub", "printf/strftime/localtime stubs"]),
            Obl("print-W8", "c15_print.c", defs=["RING_W=8"], unwind=14, object_bits=11,
                unwindset={"verif_read": 90, "verif_ring_memcpy": 50, "verif_snprintf": 21, "qb_log_blackbox_print_from_file.0": 3,
                           "qb_log_blackbox_print_from_file.1": 3, "qb_log_blackbox_print_from_file.2": 5, "qb_vsnprintf_deserialize": 514},
                timeout=1500, mem_gb=16,
                bounds={"file_bytes": "0..72, all symbolic", "ring_words": 8, "page_size": 16},
                units=["lib/log_blackbox.c", "lib/ringbuffer.c"],
                stubs=["open/read/lseek/fstat/close over a symbolic byte array", "mmap/munmap/unlink/sysconf model", "decoder contract stub", "printf/strftime/localtime stubs"])]
