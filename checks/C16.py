from engine import Obl

META = {
 "level_text": "CBMC symbolic execution of the real lib/log_thread.c at critical-section granularity: producer, worker and control operations are interleaved by EVERY history of 5 (quick) / 6 (thorough) steps over {thread_start, control operation on a threaded target (pause+resume as qb_log_ctl2 does), post a message, one worker-loop iteration (only when the semaphore is positive), thread_stop (its join runs worker iterations until the worker exits), post while the backlog counter is at the 512000-byte limit}; every step is one real library call over counting-semaphore / ghost-lock / pthread stubs that assert use of destroyed locks and semaphores. Oracle: messages are written in posting order, each once; posted = written + dropped once stop has returned; a dropped message leaves the accounting unchanged; after stop a new start creates a worker again.",
 "level_note": "Interleavings INSIDE a critical section or between an unlock and the following sem_post (instruction granularity), data races on unprotected variables and real scheduler behaviour are NOT decided: CBMC's thread mode rejects this unit. The qb_log_real_va_/qb_log_ctl2/qb_log_fini layer of lib/log.c is not included (steps call the log_thread API directly), so target enable/disable/reconfigure during operation is not decided. Histories are scenario constants (exhaustive for the alphabet and length). Trusted: CBMC, the semaphore/lock/pthread stubs.",
 "technique": "CBMC bounded symbolic execution of real C code over an exhaustive table of schedules at critical-section granularity (cooperative sequentialisation); ghost counters oracle",
 "assumptions": ["allocation never fails", "the worker is scheduled only when its semaphore is positive (a blocked thread does not run)"],
}
def obligations(tier):
    nops = 5 if tier == "quick" else 6
    obs = []
    for first in (0, 5):      # histories start with thread_start, or with a control operation before the thread exists
      for part in range(6):
        per = 6 ** (nops - 1) // 6
        obs.append(Obl("sched-N%d-first%d-part%d" % (nops, first, part), "c16_thread.c", defs=["NOPS=%d" % nops, "FIRST=%d" % first, "noreturn=", "SC_BASE=%d" % (part * per)],
                unwind=nops + 4, n_entries=per, timeout=120, mem_gb=4, object_bits=9,
                bounds={"history_length": nops, "first": "thread_start" if first == 0 else "control op", "scenarios": "%d..%d of %d" % (part * per, (part + 1) * per - 1, 6 ** (nops - 1))},
                units=["lib/log_thread.c"], stubs=["counting semaphores", "ghost locks", "pthread_create/join/exit model", "qb_log_thread_log_write = recorder"]))
    return obs
