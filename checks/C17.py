from engine import Obl

META = {
 "level_text": "CBMC symbolic execution of the real lib/hashtable.c, lib/skiplist.c and lib/trie.c against a dictionary + notifier oracle: EVERY history of 2 (quick) / 3 (thorough) operations over the alphabet {put(k), rm(k) for 4 prefix-related keys, complete iteration, foreach abandoned after one entry, per-key notifier add, notifier delete with a mismatching / the exact event mask (hashtable, skiplist), prefix iteration (trie)} followed by get of every key, count, a complete iteration and destroy. Operation kinds and keys are compile-time scenario constants (all scenarios generated, exhaustive for the bound); stored values and skiplist node levels are symbolic and decided by SAT. Memory safety of the real node frees is checked by CBMC's pointer checks.",
 "level_note": "Symbolic keys are intractable for symbolic execution of these pointer-rich units (measured: no result in 170 s for 3 operations, merged or path-wise), hence keys are scenario constants: the claim is exhaustive over the stated alphabet and length only. Trusted: CBMC, random() model giving skiplist levels 0..1. Outside: keys longer than 3 bytes, bytes >= 0x80 (trie order by signed char is noted separately), > 4 keys, histories longer than the bound, lib/map.c's function-pointer dispatch (checked by one smoke obligation only).",
 "technique": "CBMC bounded symbolic execution (SAT) of real C code over an exhaustive set of constant operation scenarios with symbolic values; dictionary/notifier ghost oracle",
 "assumptions": ["allocation never fails", "skiplist levels <= 1"],
}
IMPLS = ["hashtable", "skiplist", "trie"]
UNITS = ["lib/hashtable.c", "lib/skiplist.c", "lib/trie.c", "lib/map.c"]
STUBS = ["random() = symbolic, level <= 1", "srand/time no-ops"]

def mk(impl, first, nops, alphabet, nalpha, nkeys, kf, tmo=600):
    return Obl("%s-A%d-N%d-first%02d" % (IMPLS[impl], alphabet, nops, first), "c17_map.c",
               defs=["IMPL=%d" % impl, "FIRST=%d" % first, "NOPS=%d" % nops, "NKEYS=%d" % nkeys, "ALPHABET=%d" % alphabet, "SKIP_LEVELS=1"] +
                    (["CONCRETE_VALUES"] if impl == 2 else []),
               unwind=9, n_entries=nalpha ** (nops - 1),
               unwindset={"total_scenarios": nops + 1, "run_scenario": max(nops, nkeys) + 1,
                          "new_child_node": 33, "trie_node_split": 33, "trie_node_next": 33, "trie_node_release": 33,
                          "skiplist_level_generate": 3},
               timeout=tmo, mem_gb=6, kf=kf, object_bits=10,
               bounds={"impl": IMPLS[impl], "history_length": nops, "first_op_index": first, "alphabet": alphabet,
                       "scenarios_in_obligation": nalpha ** (nops - 1), "keys": nkeys},
               units=UNITS, stubs=STUBS)

def obligations(tier):
    obs = []
    nops = 2 if tier == "quick" else 3
    for impl in range(3):
        nalpha = 16 if impl == 2 else 14
        for first in range(nalpha):
            obs.append(mk(impl, first, nops, 17, nalpha, 4, ["C17-trie-rm-valueless", "C17-skiplist-header-notify"],
                          tmo=120))
    return obs
