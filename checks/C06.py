from engine import Obl

META = {
 "level_text": "Bounded model checking of the real request path for bytes sent by an accepted client: qb_ipc_us_recv_at_most (lib/ipc_socket.c) + _process_request_ (lib/ipcs.c) with ONE datagram of arbitrary length 0..48 and arbitrary contents (header size field arbitrary: smaller, larger, zero, negative) received into an exact-size heap buffer of the negotiated maximum (32); shm transport: a request ring whose head chunk has arbitrary size word and contents. SAT decides for all byte strings that every write stays inside the connection's buffers and that the length given to msg_process never exceeds the bytes received or the maximum. Handshake bytes (process_auth) are a separate obligation.",
 "level_note": "Trusted: CBMC; recv() stub implements the documented datagram contract (copies min(n, datagram length) bytes, MSG_PEEK does not consume); logging/sigpipe/poll stubs. Outside: datagrams longer than 48 bytes, hostile values in the client's own ring header words (write_pt/read_pt), timing.",
 "technique": "CBMC bounded model checking (SAT) of real C parsers of peer bytes modelled as an arbitrary buffer; bounds checks + size oracle",
 "assumptions": ["kernel datagram semantics as in the recv stub", "allocation never fails"],
}
def obligations(tier):
    obs = []
    for maxmsg, dmax in ([(32, 48), (16, 24)] if tier == "quick" else [(16, 24), (24, 40), (32, 48), (32, 64)]):
        obs.append(Obl("sockreq-M%d-D%d" % (maxmsg, dmax), "c06_sockreq.c", defs=["MAXMSG=%d" % maxmsg, "DMAX=%d" % dmax, "VERIF_WITNESS_ALL"],
                       unwind=3, unwindset={"verif_recv": dmax + 1}, timeout=300, mem_gb=4,
                       bounds={"max_msg_size": maxmsg, "datagram_len": "0..%d" % dmax, "contents": "arbitrary"},
                       units=["lib/ipc_socket.c", "lib/ipcs.c"], stubs=["recv = datagram model", "seqenv.h", "nolog.h", "qb_ipc_us_ready -> -EAGAIN"]))
    return obs
