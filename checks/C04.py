from engine import Obl

META = {
 "level_text": "CBMC symbolic execution of the real lib/ipcs.c (whole unit) and handle_new_connection (lib/ipc_setup.c) over EVERY history of 3 (quick) / 4 (thorough) events that starts with an accepted connection (and, in the '+ref' obligations, an application reference taken on it), over the alphabet {client accepted, client refused, client death (POLLHUP dispatch), server-initiated disconnect from outside, application ref / unref, run the queued closed-callback retry job, connection-list iteration, request dispatch (POLLIN), service destroy}, in six callback configurations (plain; connection_closed asks for a retry; connection_created disconnects; connection_created takes a reference and disconnects; msg_process disconnects; connection_destroyed walks the connection list), followed by a wind-down (application drops its references, retries run). The monitor decides the callback order accept, created, msg*, closed+, destroyed (closed only if created, not again after it returned zero; destroyed exactly once and only with no application reference left; nothing afterwards); CBMC's pointer checks on the real free(c)/free(s) decide use-after-free and double free.",
 "level_note": "Transport functions, poll handlers, sockets and the file system are recording stubs (the real transports' cleanup is C03's subject, not decided). Histories are scenario constants (exhaustive for the alphabet, length and at most 2 connections); events on connection 0 only, plus a second connection as bystander. The application is assumed to use a connection pointer only while it is alive (not yet destroyed) or while it holds a reference. Trusted: CBMC.",
 "technique": "CBMC bounded symbolic execution (SAT) of real C code over an exhaustive table of constant event histories; monitor automaton + CBMC memory-safety checks",
 "assumptions": ["allocation never fails", "the application does not use a destroyed connection it holds no reference on"],
}
CFGS = [("plain", []), ("closed-retry", ["CLOSED_RETRY=1"]), ("created-disc", ["CREATED_DISC=1"]), ("created-refdisc", ["CREATED_DISC=2"]), ("msg-disc", ["MSG_DISC=1"]), ("destroyed-iter", ["DESTROYED_ITER=1"])]
def obligations(tier):
    nops = 3 if tier == "quick" else 4
    total = 10 ** (nops - 1)
    parts = 4 if tier == "quick" else 10
    per = total // parts
    obs = []
    allcfg = [(n, d) for n, d in CFGS] + [(n + "+ref", d + ["PRELOAD_REF"]) for n, d in CFGS]
    if tier == "quick":
        allcfg = [c for c in allcfg if c[0] in ("msg-disc", "destroyed-iter", "plain+ref", "closed-retry+ref", "created-refdisc")]
    for name, defs in allcfg:
        for part in range(parts):
            obs.append(Obl("life-%s-N%d-part%d" % (name, nops, part), "c04_lifecycle.c", defs=["NOPS=%d" % nops, "SC_BASE=%d" % (part * per)] + defs,
                           unwind=8, unwindset={"strlen.0": 17, "verif_strrchr": 17}, n_entries=per, timeout=120, mem_gb=4, object_bits=9,
                           kf=["C04-closed-again"],
                           bounds={"history_length": nops, "callbacks": name, "scenarios": "%d..%d of %d" % (part * per, (part + 1) * per - 1, total), "connections": "<= 2"},
                           units=["lib/ipcs.c", "lib/ipc_setup.c (handle_new_connection)"], stubs=["transport funcs, poll handlers, send/close/mkdtemp/chmod/chown/rmdir stubs", "seqenv.h", "nolog.h"]))
    return obs
