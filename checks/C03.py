from engine import Obl

META = {
 "level_text": "CBMC bounded model checking of the server's reaction to the death of an established shared-memory client, through the real lib/ipcs.c (dispatch, disconnect, unref), lib/ipc_setup.c (handle_new_connection, qb_ipc_us_recv, remove_tempdir) and the real server side of lib/ipc_shm.c (connect, disconnect) over a ghost file system and descriptor table: the death shows as POLLHUP, as end-of-file on the setup socket under POLLIN, or as POLLNVAL, with and without an application-held reference, for ARBITRARY peer credentials; plus the death during the handshake at the point where the connection is fully set up (rings, directory, main-loop registration) and the reply cannot be sent (EPIPE): nothing may remain. Decided: the dispatcher reports the dead peer, closed is invoked once and before destroyed, destroyed exactly once (only after the application dropped its reference), no message callback, all three ring files closed exactly once, the temporary directory removed, the descriptor removed from the main loop and then closed exactly once, the connection unlisted, the service left with its creator's reference.",
 "level_note": "ONLY the server side of the shared-memory transport after the connection was established, one connection; request queue empty, or two requests queued when the hang-up is reported (with and without request flow control). NOT decided: death at earlier points of the handshake (partial request bytes: harness c06_auth.c does not finish), mid-request, end-of-file with queued messages, other clients being served meanwhile, the socket transport, the whole client side of C03 (server death: deadlines in lib/ipcc.c, forced clean-up of the dead server's files), the SIGBUS guard (setjmp/longjmp are not supported by CBMC: modelled as 'no signal'), and what the kernel reports. Ring files are the contract stub of C05. Trusted: CBMC, ghost file system.",
 "technique": "CBMC bounded model checking (SAT) of real C code over a ghost file-system / descriptor table; one obligation per way the death is observed",
 "assumptions": ["allocation never fails", "no SIGBUS during ring tear-down"],
}
def obligations(tier):
    obs = []
    for d, dn in ((1, "pollhup"), (2, "eof"), (3, "pollnval")):
        for a in (0, 1):
            obs.append(Obl("death-%s-appref%d" % (dn, a), "c03_death.c", defs=["DEATH=%d" % d, "APP_REF=%d" % a],
                           unwind=8, unwindset={"strlen.0": 17, "verif_strrchr": 17}, timeout=600, mem_gb=4, object_bits=9,
                           bounds={"connections": 1, "death_observed_as": dn, "application_reference": bool(a), "queued_requests": 0, "uid/gid/pid": "all 32-bit values"},
                           units=["lib/ipcs.c", "lib/ipc_setup.c", "lib/ipc_shm.c (server side)"],
                           stubs=["ghost file system: mkdtemp/chmod/chown/rmdir", "qb_rb_open/chown/chmod/close/chunks_used: contract stubs", "send/recv/close: descriptor table", "poll handlers: recording stubs", "setjmp = 0 (no SIGBUS)", "seqenv.h", "nolog.h"]))
    # POLLHUP / POLLNVAL while requests are still queued, with and without request flow control
    for d, dn in ((1, "pollhup"), (3, "pollnval")):
        for fc in (0, 1):
            obs.append(Obl("death-%s-queued2-fc%d" % (dn, fc), "c03_death.c", defs=["DEATH=%d" % d, "APP_REF=0", "QLEN=2"] + (["FC"] if fc else []),
                           unwind=8, unwindset={"strlen.0": 17, "verif_strrchr": 17}, timeout=600, mem_gb=4, object_bits=9,
                           bounds={"connections": 1, "death_observed_as": dn, "queued_requests": 2, "flow_control": bool(fc), "uid/gid/pid": "all 32-bit values"},
                           units=["lib/ipcs.c", "lib/ipc_setup.c", "lib/ipc_shm.c (server side)"],
                           stubs=["ghost file system", "ring contract stubs (chunks_used = 2)", "descriptor table", "setjmp = 0 (no SIGBUS)", "seqenv.h", "nolog.h"]))
    # death DURING the handshake, at the boundary 'everything came up, the reply cannot be sent' (EPIPE): PART 2 of c05_admit.c
    for a in (0, 1):
        obs.append(Obl("death-handshake-reply-auth%d" % a, "c05_admit.c", defs=["PART=2", "FAIL_AT=11", "SET_AUTH=%d" % a],
                       unwind=8, unwindset={"strlen.0": 17, "verif_strrchr": 17}, timeout=600, mem_gb=4, object_bits=9, expect_unreached="accepted path",
                       bounds={"connections": 1, "death_observed_as": "EPIPE when sending the handshake reply", "uid/gid/pid/owner/group": "all 32-bit values"},
                       units=["lib/ipcs.c", "lib/ipc_setup.c", "lib/ipc_shm.c (server side)"],
                       stubs=["ghost file system", "ring contract stubs", "send = EPIPE for the reply", "seqenv.h", "nolog.h"]))
    return obs
