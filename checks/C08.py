from engine import Obl

META = {
 "level_text": "CBMC symbolic execution of the real job and timer sources of the event loop (lib/loop.c, lib/loop_job.c, lib/loop_timerlist.c, include/tlist.h, lib/array.c): EVERY history of 3/2 (quick) or 4/3 (thorough) operations over two alphabets - jobs {job_add(0|1), job_del(0), one loop iteration} and timers {timer_add(0|1), timer_del(0), timer_del with a stale handle, advance clock + one loop iteration, one loop iteration, is_running/time-remaining queries} - with adversarial callbacks (job 1 deletes job 0, timer 1 deletes timer 0, from inside their callbacks, possibly already queued), followed by a settling phase. Ghost counters decide: every added and not deleted job/timer runs exactly once, nothing runs after a successful delete, no timer fires early, stale handles are rejected with no effect on other registrations, queries agree with the pending state. Check words drawn by random() are symbolic.",
 "level_note": "ONLY THE JOB CLAUSES OF C08 ARE DECIDED HERE: the timer family of c08_loop.c (add/del/stale handle/queries) needs more than 120 s of path-wise symbolic execution per 2-operation scenario and is not registered; timer expiry/heap/never-early are decided by C09. Operation kinds/arguments are scenario constants (exhaustive for the alphabet and length): symbolic operation choice stalls symbolic execution of these pointer-rich units. Histories mixing jobs and timers in one level list are NOT covered (symbolic execution of the list walk does not finish, measured); descriptor (epoll) and signal sources are NOT covered (their registries and the epoll stale-u64 case need kernel stubs that were not built); everything runs at QB_LOOP_HIGH with single-iteration qb_loop_run calls. Trusted: CBMC, clock stub, sequential lock stubs, capacity-bounded realloc.",
 "technique": "CBMC bounded symbolic execution (SAT) of real C code over an exhaustive table of constant operation scenarios; ghost-counter oracle",
 "assumptions": ["allocation never fails", "check words of successive registrations differ (2^-31 design limit)"],
}
def obligations(tier):
    obs = []
    for fam, nalpha, nops, firsts in ((0, 4, 3 if tier == "quick" else 4, [0, 1]), (2, 5, 3 if tier == "quick" else 4, [0])):   # timers family: > 120 s per scenario (measured), not registered
        for first in firsts:
            obs.append(Obl("loop-%s-N%d-first%02d" % ({0: "jobs", 1: "timers", 2: "alias"}[fam], nops, first), "c08_loop.c",
                       defs=["NOPS=%d" % nops, "FIRST=%d" % first, "FAMILY=%d" % fam, "NESTED_DEL"], paths=True,
                       unwind=3, n_entries=nalpha ** (nops - 1),
                       unwindset={"verif_realloc": 9, "_grow_bin_array": 4, "qb_loop_timer_add": 2, "verif_random": 9,
                                  "qb_loop_run.6": 4, "qb_loop_run.7": 4, "qb_loop_run_level": 6, "timerlist_expire": 4,
                                  "timerlist_heap_sift_down": 3, "timerlist_heap_sift_up": 2, "verif_mtx_find": 4,
                                  "harness_scenario": nops + 4, "get_more_jobs": 4, "qb_list_length": 8, "qb_loop_job_del": 8,
                                  "_get_empty_array_position_": 4, "expire_the_timers": 3},
                       timeout=120, mem_gb=4, object_bits=9,
                       bounds={"family": {0: "jobs", 1: "timers", 2: "alias"}[fam], "history_length": nops, "first_op_index": first,
                               "scenarios_in_obligation": nalpha ** (nops - 1)},
                       units=["lib/loop.c", "lib/loop_job.c", "lib/loop_timerlist.c", "include/tlist.h", "lib/array.c"],
                       stubs=["clock = harness variable", "fd source stub (stops after one iteration)", "seqenv.h", "pthread_seq.h", "cap_realloc.h", "random() symbolic, distinct"]))
    return obs
