from engine import Obl

META = {
 "level_text": "Bounded model checking of the real lib/ringbuffer.c in QB_RB_FLAG_OVERWRITE mode: one inductive step (write or alloc+commit of any length up to the requested size, arbitrary payload) from an arbitrary ring state representing an arbitrary ghost FIFO; decides for all inputs that the write succeeds, that exactly a prefix of the oldest chunks is dropped, that the kept suffix is at least what the size contract (len+16 per chunk) promises, and that a full drain returns the kept chunks byte-identically. Blackbox record sizing (log_blackbox.c) is a separate obligation.",
 "level_note": "Trusted: CBMC, circular-mmap model, logging stubs. Ring sizes W<=10 words, <=3 queued chunks, lengths <=9 bytes; single writer (libqb supports no concurrent reader of an overwrite ring).",
 "technique": "CBMC bounded model checking (SAT) of real C code: inductive step with symbolic pre-state + ghost FIFO oracle",
 "assumptions": ["circular mmap modelled by offset-mod-4W memcpy", "sequential use"],
}
UNITS = ["lib/ringbuffer.c"]
STUBS = ["verif_ring_memcpy (circular mapping)", "nolog.h"]

def obligations(tier):
    obs = []
    for W in ([6, 8] if tier == "quick" else [6, 7, 8, 9, 10]):
        K, L = 3, 9
        obs.append(Obl("ow-step-W%d" % W, "c11_step.c", defs=["RING_W=%d" % W, "RING_K=%d" % K, "RING_L=%d" % L, "VERIF_WITNESS_ALL"],
                       unwind=max(L + 2, W + 1, K + 3), timeout=900, mem_gb=6,
                       bounds={"W_words": W, "K_queued": K, "L_max_len": L, "shape": "inductive step, overwrite mode"},
                       units=UNITS, stubs=STUBS))
    return obs
