from engine import Obl

META = {
 "level_text": "Bounded model checking of the real lib/array.c: histories of up to 3 (quick) / 4 (thorough) index/grow calls after qb_array_create_2 with symbolic initial size (<=40) and auto-grow setting, index over the FULL int32_t range and grow over the full size_t range; ghost map idx->address decides address stability, disjointness, zero-initialisation, persistence of written data, range errors and lock pairing for all argument values.",
 "level_note": "Trusted: CBMC, ghost locks and plain atomics (sequential), capacity-bounded realloc model of the bin table (8 bins = 128 elements; auto-grow/grow targets in [97, 65536] are outside the bound). The multi-threaded clause of C19 is NOT decided: CBMC's thread mode rejects this unit (assignment to the shared pointer a->bin) and the unlocked read 'bin = a->bin[b]' after qb_thread_unlock is invisible at lock granularity; only lock/unlock pairing is asserted.",
 "technique": "CBMC bounded model checking (SAT) of real C code: bounded histories with symbolic operands + ghost address map",
 "assumptions": ["sequential execution", "allocation never fails", "element sizes {1, 8, 24} (one obligation each)"],
}
UNITS = ["lib/array.c"]
STUBS = ["seqenv.h (ghost locks, plain atomics)", "cap_realloc.h (bin table <= 8 bins)"]

def obligations(tier):
    obs = []
    for esz, nops in ([(8, 3), (1, 2)] if tier == "quick" else [(1, 3), (8, 3), (24, 3), (8, 4)]):
        obs.append(Obl("hist-E%d-N%d" % (esz, nops), "c19_array.c", defs=["ESZ=%d" % esz, "NOPS=%d" % nops, "VERIF_WITNESS_ALL"],
                       unwind=max(nops + 1, 9, esz + 1), unwindset={"verif_realloc": 9, "_grow_bin_array": 9, "qb_array_free": 9},
                       timeout=900, mem_gb=8,
                       bounds={"ops": nops, "elem_size": esz, "initial_max": "0..40", "autogrow": "{0,1,16}", "idx": "all int32_t", "grow_n": "all size_t (targets 97..65536 excluded)"},
                       units=UNITS, stubs=STUBS))
    return obs
