from engine import Obl

META = {
 "level_text": "Bounded model checking of the real lib/log_format.c qb_log_target_format/_strcpy_cutoff (and cs_format / qb_log_ctl2 of lib/log.c in separate obligations): format strings are token-structured (optional literal, '%', optional '-', 0-2 width digits, ANY directive byte, optional literal, optional %b), all literal/digit/letter bytes, the message (0..6 arbitrary bytes incl. trailing newline), call-site strings, priority, line text, max_line_length in [4,12] and ellipsis are symbolic; canaries around the buffer turn any out-of-range write (incl. index -1) into an assertion; output is compared with a reference formatter when it fits and checked for termination/ellipsis when truncated.",
 "level_note": "Trusted: CBMC; libc number/date formatting is a bounded-writer stub (arbitrary text <= 6 chars); isdigit/atoi reference models; rwlock no-ops. Outside: formats with more than one symbolic directive + %b, widths > 99, messages > 6 bytes, max_line_length > 12 in the symbolic harness (the default 512 and heap path are covered by the size-arithmetic obligation).",
 "technique": "CBMC bounded model checking (SAT) of real C code with token-structured symbolic format strings and canary-guarded buffers; reference formatter oracle",
 "assumptions": ["libc formatting stubbed", "allocation never fails"],
}
UNITS = ["lib/log_format.c"]
STUBS = ["snprintf = bounded writer of arbitrary text", "isdigit/atoi reference models", "localtime_r zeroes", "pthread_rwlock no-ops"]

def fmt(pre, post, minus, ndig, withb, tier):
    maxmsg, maxll = 6, 12
    return Obl("fmt-pre%d-post%d-minus%d-dig%d-b%d" % (pre, post, minus, ndig, withb), "c13_format.c",
               defs=["PRE=%d" % pre, "POST=%d" % post, "MINUS=%d" % minus, "NDIG=%d" % ndig, "WITHB=%d" % withb,
                     "MAXMSG=%d" % maxmsg, "MAXLL=%d" % maxll, "VERIF_WITNESS_ALL"],
               unwind=8, unwindset={"harness": 42, "qb_log_target_format": 7, "verif_atoi": 4,
                                    "verif_snprintf": 8, "mkstr": 8, "verif_strlen": 42, "verif_memset": 42, "verif_memcpy": 42},
               timeout=900, mem_gb=8, kf=["C13-ellipsis-newline", "C13-empty-line-index"],
               bounds={"skeleton": "%s%%%s%s<letter>%s%s" % ("L" if pre else "", "-" if minus else "", "d" * ndig, "L" if post else "", "%b" if withb else ""),
                       "message_len": "0..%d" % maxmsg, "max_line_length": "4..%d" % maxll, "width": "0..%d" % (10 ** ndig - 1)},
               units=UNITS, stubs=STUBS)

def obligations(tier):
    obs = []
    if tier == "quick":
        combos = [(0, 0, 0, 1, 1), (1, 1, 1, 0, 1), (0, 1, 0, 2, 0)]
    else:
        combos = [(pre, post, minus, nd, wb) for pre in (0, 1) for post in (0, 1) for minus in (0, 1) for nd in (0, 1, 2) for wb in (0, 1)]
    for c in combos:
        obs.append(fmt(*c, tier))
    return obs
