from engine import Obl

META = {
 "level_text": "CBMC bounded model checking of the real admission path: (A) qb_ipc_auth_creds over a received message whose ancillary buffer holds an SCM_CREDENTIALS record with ARBITRARY pid/uid/gid, alone or behind a record of another type; (B) one handle_new_connection() (lib/ipc_setup.c) through the real lib/ipcs.c and the real server side of the shared-memory transport (qb_ipcs_shm_connect, qb_ipcs_shm_rb_open, qb_ipcs_shm_disconnect) with ARBITRARY peer credentials, accept verdict (0 or any negative code) and, optionally, an ARBITRARY owner/group/mode chosen by the accept callback through qb_ipcs_connection_auth_set, for each of 12 failure points (none; k-th ring cannot be opened / chown'ed / chmod'ed; main loop refuses the descriptor; the handshake reply cannot be sent because the client died). A ghost file system records owner and mode of the temporary directory and of every ring over its whole life. Decided: accept sees exactly the peer's uid/gid and runs before any channel exists; a refusal returns and reports the callback's code, opens no channel, reaches no created/message callback, leaves no file, directory or list entry; any failed connect leaves nothing; on success the three channels and the directory are owned by the authorised user/group, channels carry the authorised mode and were never more permissive than 0600 | authorised mode; the directory is never accessible to others.",
 "level_note": "Ring files are a contract stub of qb_rb_open/qb_rb_chown/qb_rb_chmod/qb_rb_close (created 0600 by the server, creator unlinks on close); the kernel side of SO_PASSCRED (that the ancillary record is the peer's effective credentials), the socket transport's files, concurrent connects and the client half of the handshake are not decided. Directory names are a fixed model string. Trusted: CBMC, the ghost file system.",
 "technique": "CBMC bounded model checking (SAT) of real C code with symbolic credentials, verdicts and owner/mode choices over a ghost file system; one obligation per transport failure point",
 "assumptions": ["allocation never fails", "accept callback returns 0 or a negative errno", "authorised mode within 0777"],
}
UNITS = ["lib/ipc_setup.c", "lib/ipcs.c", "lib/ipc_shm.c (server side)"]
STUBS = ["ghost file system: mkdtemp/chmod/chown/rmdir", "qb_rb_open/chown/chmod/close: contract stubs", "send = records the response header", "poll handlers: recording stubs", "seqenv.h", "nolog.h", "__cmsg_nxthdr: glibc's published definition"]
def obligations(tier):
    obs = [Obl("creds", "c05_admit.c", defs=["PART=1"], unwind=4, timeout=300, mem_gb=4, object_bits=9,
               bounds={"ancillary_records": "1..2", "pid/uid/gid": "all 32-bit values"}, units=["lib/ipc_setup.c (qb_ipc_auth_creds)"], stubs=STUBS)]
    for f in range(12):
        for a in (0, 1):
            obs.append(Obl("admit-fail%d-auth%d" % (f, a), "c05_admit.c", defs=["PART=2", "FAIL_AT=%d" % f, "SET_AUTH=%d" % a],
                           unwind=8, unwindset={"strlen.0": 17, "verif_strrchr": 17}, timeout=600, mem_gb=4, object_bits=9, expect_unreached=("accepted path" if f else None),
                           bounds={"connections": 1, "transport_failure_point": f, "auth_set_in_accept": bool(a),
                                   "uid/gid/pid/verdict/owner/group": "all 32-bit values (verdict <= 0)", "mode": "0..0777"},
                           units=UNITS, stubs=STUBS))
    return obs
