from engine import Obl
import importlib.util, os
META = {
 "level_text": "CBMC symbolic execution of the real lib/hashtable.c, lib/skiplist.c and lib/trie.c: EVERY history of 4 operations over the alphabet {put(k), rm(k) for 3 prefix-related keys; iter_create(i), iter_next(i), iter_free(i) for 2 iterators}; CBMC's pointer checks on the real node frees decide use-after-free / double free, the per-iterator oracle decides 'a key present for the whole iteration is returned, exactly once with removals only, never a key that was never present', and after the iterators are gone the full dictionary check (get of every key, count, complete iteration, destroy notifications) runs. The same alphabet is also run from two constant prefixes: PRELOAD (2 entries, iterator 0 on the first entry it returns; + 2/3 operations) and PRELOAD2 (3 entries, iterator 0 advanced twice = on an entry with a live predecessor and successor in the ordered map; + 3 operations, 9 deep; quick: skiplist with a removal first, thorough: all maps, every first operation).",
 "level_note": "Operation kinds and keys are scenario constants (exhaustive for the alphabet and length), stored values and nothing else are symbolic: symbolic keys stall symbolic execution of these units (measured). Trusted: CBMC; skiplist node level fixed to 0. Outside: more than 2 iterators, more than 3 keys, histories longer than the bound, iterator use after destroy.",
 "technique": "CBMC bounded symbolic execution (SAT) of real C code over an exhaustive set of constant operation scenarios; memory-safety checks + iterator/dictionary ghost oracle",
 "assumptions": ["allocation never fails", "skiplist levels = 0"],
}
IMPLS = ["hashtable", "skiplist", "trie"]
UNITS = ["lib/hashtable.c", "lib/skiplist.c", "lib/trie.c"]

def obligations(tier):
    obs = []
    nops = 2 if tier == "quick" else 3
    nalpha = 12
    for impl in range(3):
        for first in range(nalpha):
            if first >= 8:      # histories starting with iter_next / iter_free on a closed iterator are no-ops: covered as later ops
                continue
            obs.append(Obl("%s-A18-N%d-first%02d" % (IMPLS[impl], nops, first), "c17_map.c",
               defs=["IMPL=%d" % impl, "FIRST=%d" % first, "NOPS=%d" % nops, "NKEYS=3", "ALPHABET=18", "SKIP_LEVELS=1"] +
                    (["CONCRETE_VALUES"] if impl == 2 else []),
               unwind=9, n_entries=nalpha ** (nops - 1),
               unwindset={"run_scenario": 5, "new_child_node": 33, "trie_node_split": 33, "trie_node_next": 33, "trie_node_release": 33},
               timeout=120, mem_gb=6, object_bits=10,
               kf=["C18-rm-under-iterator", "C18-skiplist-rm-with-zombie"],
               bounds={"impl": IMPLS[impl], "history_length": nops, "first_op_index": first, "scenarios_in_obligation": nalpha ** (nops - 1), "keys": 3, "iterators": 2},
               units=UNITS, stubs=["random() constant (level 0)"]))
    # same alphabet, starting from a preloaded state (2 entries, iterator 0 on its first entry): 4 + nops operations deep
    for impl in range(3):
        for first in range(nalpha):
            obs.append(Obl("%s-A18-pre-N%d-first%02d" % (IMPLS[impl], nops, first), "c17_map.c",
               defs=["IMPL=%d" % impl, "FIRST=%d" % first, "NOPS=%d" % nops, "NKEYS=3", "ALPHABET=18", "SKIP_LEVELS=1", "PRELOAD"] +
                    (["CONCRETE_VALUES"] if impl == 2 else []),
               unwind=9, n_entries=nalpha ** (nops - 1),
               unwindset={"run_scenario": 5, "new_child_node": 33, "trie_node_split": 33, "trie_node_next": 33, "trie_node_release": 33},
               timeout=120, mem_gb=6, object_bits=10,
               kf=["C18-rm-under-iterator", "C18-skiplist-rm-with-zombie"],
               bounds={"impl": IMPLS[impl], "prefix": "put k0, put k1, iter_create 0, iter_next 0", "history_length_after_prefix": nops, "first_op_index": first,
                       "scenarios_in_obligation": nalpha ** (nops - 1), "keys": 3, "iterators": 2},
               units=UNITS, stubs=["random() constant (level 0)"]))
    # PRELOAD2 family: three entries, iterator 0 advanced twice (ordered maps: positioned on the middle entry, which has a live
    # predecessor AND a live successor), then every history of 3 operations: 9 operations deep.  Reaches seeded/C18-2.
    # quick: the histories that start with a removal (the ones that can orphan the iterator's entry); thorough: every first operation.
    for impl in range(3):
        for first in range(nalpha):
            if tier == "quick" and not (impl == 1 and first in (3, 4, 5)):
                continue
            obs.append(Obl("%s-A18-pre2-N3-first%02d" % (IMPLS[impl], first), "c17_map.c",
               defs=["IMPL=%d" % impl, "FIRST=%d" % first, "NOPS=3", "NKEYS=3", "ALPHABET=18", "SKIP_LEVELS=1", "PRELOAD2"] +
                    (["CONCRETE_VALUES"] if impl == 2 else []),
               unwind=14, n_entries=nalpha ** 2,
               unwindset={"run_scenario": 5, "new_child_node": 33, "trie_node_split": 33, "trie_node_next": 33, "trie_node_release": 33},
               timeout=300, mem_gb=6, object_bits=10,
               kf=["C18-rm-under-iterator", "C18-skiplist-rm-with-zombie"],
               bounds={"impl": IMPLS[impl], "prefix": "put k0, put k1, put k2, iter_create 0, iter_next 0, iter_next 0", "history_length_after_prefix": 3,
                       "first_op_index": first, "scenarios_in_obligation": nalpha ** 2, "keys": 3, "iterators": 2},
               units=UNITS, stubs=["random() constant (level 0)"]))
    return obs
