from engine import Obl

META = {
 "level_text": "CBMC symbolic execution of the real server-side IPC layer (lib/ipcs.c: qb_ipcs_dispatch_connection_request, _process_request_, _request_q_len_get, qb_ipcs_event_send / qb_ipcs_event_sendv, new_event_notification, resend_event_notifications, qb_ipcs_request_rate_limit / flow control; lib/ipc_setup.c: qb_ipc_us_send, qb_ipc_us_recv, qb_ipc_us_ready) over EVERY history of 3 (quick) / 4 (thorough) steps of {client sends a request, loop dispatches POLLIN, loop dispatches POLLOUT, server event_send, server event_sendv, client reads an event, rate limit OFF (flow control), rate limit NORMAL, next notification send fails with ENOBUFS, oversized event}, followed by a wind-down that runs loop and client until nothing is pending. Monitor: msg_process sees every accepted request exactly once, in order, with its length; an event send that reports an error leaves the event ring unchanged; the client finds events exactly once and in order; after every step notification bytes client->server = queued requests and bytes sent + notifications owed = events queued, with POLLOUT registered while notifications are owed; the server never blocks for ever on the notification socket; at the end everything accepted was delivered.",
 "level_note": "The transport function table is a GHOST transport with the contract of the shared-memory transport (FIFO rings of 4 requests / 3 events, peek/reclaim, send = size or -EAGAIN; the ring-level exactly-once/in-order/intact clauses are C07/C01) and the client is its contract (request = ring entry + one byte, atomically; event read = one byte + one entry): lib/ipcc.c, lib/ipc_shm.c, lib/ipc_socket.c are NOT encoded, nor is the socket transport or the response path. Socket sends may be partial; where qb_ipc_us_send spins on a full socket after a partial send, the model lets the client read (fairness). One connection. Histories are scenario constants (exhaustive for alphabet and length). Trusted: CBMC, the ghost transport and socket counters.",
 "technique": "CBMC bounded symbolic execution (SAT) of real C code over an exhaustive table of constant event histories; ghost transport + monitor automaton",
 "assumptions": ["allocation never fails", "client request = ring entry + notification byte, atomic", "a client whose socket is full eventually reads (fairness for the send spin loop)"],
}
def obligations(tier):
    nops = 3 if tier == "quick" else 4
    cfgs = [("cap1", ["S2C_CAP=1"]), ("cap2-backoff1", ["S2C_CAP=2", "BACKOFF_AT=1"])] if tier == "quick" else \
           [("cap1", ["S2C_CAP=1"]), ("cap2", ["S2C_CAP=2"]), ("cap1-backoff2", ["S2C_CAP=1", "BACKOFF_AT=2"]), ("cap2-backoff1", ["S2C_CAP=2", "BACKOFF_AT=1"])]
    total = 10 ** nops
    parts = 16 if tier == "quick" else 80
    per = total // parts
    obs = []
    for name, defs in cfgs:
        for part in range(parts):
            obs.append(Obl("srv-%s-N%d-part%d" % (name, nops, part), "c02_server.c", defs=["NOPS=%d" % nops, "SC_BASE=%d" % (part * per)] + defs,
                           unwind=12, unwindset={"strlen.0": 17, "verif_strrchr": 17, "verif_recv": 51}, n_entries=per, timeout=120, mem_gb=4, object_bits=9,
                           bounds={"history_length": nops, "config": name, "scenarios": "%d..%d of %d" % (part * per, (part + 1) * per - 1, total), "request_ring": 4, "event_ring": 3},
                           units=["lib/ipcs.c", "lib/ipc_setup.c (qb_ipc_us_send/recv/ready, handle_new_connection)"],
                           stubs=["ghost transport function table (contract of the shm transport)", "socket = byte counters (send/recv/poll)", "poll handlers: recording stubs", "seqenv.h", "nolog.h"]))
    return obs
