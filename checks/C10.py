from engine import Obl

META = {
 "level_text": "CBMC symbolic execution of the real qb_loop_run/qb_loop_run_level (lib/loop.c) and the real job source (lib/loop_job.c) over ALL 216 workload scenarios {backlog 0/1/5 jobs} x {self-re-adding or not} per priority level, 7 loop iterations each (every phase of the p_stop cycle twice); the recorded dispatch trace is checked for: >=1 dispatch per pending level in every window of three iterations, <= to_process per iteration, FIFO per level, HIGH>=MED>=LOW under saturation, exact drain of finite backlogs.",
 "level_note": "Queue shapes are scenario constants because symbolic queue lengths stall CBMC's symbolic execution (measured > 900 s for three symbolic lengths); the scenario set is exhaustive for the stated alphabet, it is not a proof for all workloads. Items are jobs only (ready descriptors and expired timers enter the same per-level lists through qb_loop_level_item_add, covered by C08/C09 harnesses). Trusted: CBMC, fd source stub.",
 "technique": "CBMC bounded symbolic execution of real C code over an exhaustive scenario table; trace oracle",
 "assumptions": ["allocation never fails"],
}
def obligations(tier):
    obs = []
    # 216 scenarios split in 8 obligations of 27 consecutive scenario indices (offset via SC_BASE)
    n = 8
    for part in range(n):
        obs.append(Obl("fair-part%d" % part, "c10_fair.c", defs=["SC_BASE=%d" % (part * 27)],
                       unwind=9, n_entries=27, unwindset={"qb_list_length": 12},
                       timeout=300, mem_gb=4, bounds={"scenarios": "%d..%d of 216" % (part * 27, part * 27 + 26), "iterations": 7, "backlog": "{0,1,5}", "readd": "{0,1}"},
                       units=["lib/loop.c", "lib/loop_job.c"], stubs=["fd source stub", "seqenv.h", "nolog.h"]))
    # family B (always-ready descriptors + a job queued while running, FAMILY_B in c10_fair.c) is not registered:
    # with descriptor items and job items in the same level lists CBMC's symbolic execution did not finish in 300 s
    # per scenario (measured); see DESIGN.md.
    return obs
