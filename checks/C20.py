from engine import Obl

META = {
 "level_text": "Bounded model checking of the real lib/hdb.c + lib/array.c: one inductive step from an arbitrary table state (every slot EMPTY/ACTIVE/PENDING with arbitrary check word and reference count) under each API call with a fully symbolic 64-bit handle (covers stale, never-issued, wildcard and out-of-range values), compared with a ghost table; plus bounded histories from qb_hdb_create. SAT decides all handle values at once.",
 "level_note": "Trusted: CBMC, sequential lock/atomic stubs (seqenv.h), random() returns [0,2^31) and not 0 twice in a row, a reissued check word differs from the stale copy's (2^-31 design limit). Preconditions: at most one destroy per issued handle, put only by reference holders. <= 3 slots in the step (slots are independent).",
 "technique": "CBMC bounded model checking (SAT) of real C code: inductive step with symbolic pre-state + ghost table oracle",
 "assumptions": ["sequential use", "allocation never fails (--no-malloc-may-fail)"],
}
UNITS = ["lib/hdb.c", "lib/array.c"]
STUBS = ["seqenv.h (ghost locks, plain atomics)", "random() = symbolic in [0,2^31)"]

def obligations(tier):
    obs = []
    OPS = ["get", "put", "destroy", "refcount", "create", "iterate"]
    for n in ([3] if tier == "quick" else [2, 3, 4]):
      for k, opn in enumerate(OPS):
        obs.append(Obl("step-N%d-%s" % (n, opn), "c20_step.c", defs=["HDB_N=%d" % n, "HDB_OP=%d" % k, "VERIF_WITNESS_ALL"], unwind=max(n + 2, 9),
                       unwindset={"qb_hdb_handle_create.1": 4, "qb_hdb_handle_create.0": n + 1,
                                  "qb_hdb_iterator_next": n + 1, "_grow_bin_array": 4, "verif_realloc": 9},
                       expect_unreached="^W:(?!%s|end)" % opn[:4],
                       timeout=900, mem_gb=8, bounds={"slots": n, "op": opn, "handle": "all 2^64 values", "shape": "inductive step"},
                       units=UNITS, stubs=STUBS, kf=["C20-empty-slot"]))
    return obs
