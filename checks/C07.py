from engine import Obl

META = {
 "level_text": "Bounded model checking of the real lib/ringbuffer.c: ONE inductive step from an arbitrary ring state that represents an arbitrary ghost FIFO (any read position, any old contents incl. marker constants) under every operation with symbolic arguments; all assertions decided by SAT for all inputs within W<=12 words, <=3 queued chunks (+1), lengths <=9. Covers histories of any length for those ring sizes; size arithmetic of qb_rb_open for real sizes is a separate obligation.",
 "level_note": "Trusted: CBMC/goto-cc, the offset-mod-4W model of the circular double mmap, empty logging stubs. Sequential use only (concurrency is C01). Ring sizes above the bound and allocation failure are outside the claim.",
 "technique": "CBMC bounded model checking (SAT) of real C code: inductive step with symbolic pre-state + ghost FIFO oracle",
 "assumptions": [
    "circular mmap modelled by offset-mod-4W memcpy (stubs: qb_sys_circular_mmap semantics)",
    "libqb-internal logging is an empty stub",
    "sequential use (one party); concurrency is C01",
]}
UNITS = ["lib/ringbuffer.c"]
STUBS = ["verif_ring_memcpy (circular mapping)", "nolog.h (qb_log_* no-ops)", "notifier = counter semaphore (RING_SEM=1)"]

def step(W, sem, K=3, L=9, timeout=600):
    return Obl("step-W%d-%s" % (W, "sem" if sem else "nosem"), "c07_step.c",
               defs=["RING_W=%d" % W, "RING_K=%d" % K, "RING_L=%d" % L, "RING_SEM=%d" % sem] + (["VERIF_WITNESS_ALL"] if W == 6 or sem else []),
               unwind=max(L + 2, W + 1, K + 2), timeout=timeout, mem_gb=6,
               bounds={"W_words": W, "K_queued": K, "L_max_len": L, "semaphore": bool(sem), "ops": 1,
                       "shape": "inductive step from arbitrary Rep-state"},
               units=UNITS, stubs=STUBS, kf=["C07-stale-magic"])

def opn(page, smax):
    return Obl("open-page%d" % page, "c07_open.c", defs=["PAGE=%d" % page, "SMAX=%d" % smax], unwind=4, timeout=600, mem_gb=12,
               bounds={"requested_size": "1..%d (symbolic)" % smax, "page_size": page, "shape": "qb_rb_open_2 size arithmetic + first alloc; MODEL page sizes (real 4096/16384/65536 with sizes up to 2^17 ran out of memory/time: the rounding arithmetic is the same expression with another constant)"},
               units=UNITS, stubs=["mmap/file stubs", "sysconf(_SC_PAGESIZE) = %d" % page])

def obligations(tier):
    obs = [opn(16, 200)] if tier == "quick" else [opn(16, 200), opn(64, 600), opn(256, 1200)]
    Ws = [6, 7, 8] if tier == "quick" else [6, 7, 8, 9, 10, 11, 12]
    for W in Ws:
        obs.append(step(W, 0))
    for W in ([8] if tier == "quick" else [6, 8, 11]):
        obs.append(step(W, 1))
    return obs
