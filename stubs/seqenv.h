/*
 * seqenv.h -- sequential environment model for harnesses that do not study
 * threads: qb_thread_lock_* are ghost locks that assert correct pairing, and
 * the qb_atomic_* functions of lib/unix.c are plain operations (their meaning
 * in a single-threaded execution).
 */
#ifndef VERIF_SEQENV_H
#define VERIF_SEQENV_H
#include "verif.h"
#include <qb/qbdefs.h>
#include <qb/qbutil.h>
#include <qb/qbatomic.h>

struct qb_thread_lock_s { int held; int live; };
#define VERIF_MAX_LOCKS 8
static struct qb_thread_lock_s verif_locks[VERIF_MAX_LOCKS];
static int verif_nlocks;
static int verif_locks_held;

qb_thread_lock_t *qb_thread_lock_create(qb_thread_lock_type_t type)
{
	(void)type;
	PROP(verif_nlocks < VERIF_MAX_LOCKS, "env: lock table large enough");
	verif_locks[verif_nlocks].held = 0;
	verif_locks[verif_nlocks].live = 1;
	return &verif_locks[verif_nlocks++];
}
int32_t qb_thread_lock(qb_thread_lock_t *tl)
{
	PROP(tl != NULL && tl->live, "env: lock() on a live lock");
	PROP(!tl->held, "env: lock() on a lock not already held (self-deadlock)");
	tl->held = 1; verif_locks_held++;
	return 0;
}
int32_t qb_thread_trylock(qb_thread_lock_t *tl)
{
	PROP(tl != NULL && tl->live, "env: trylock() on a live lock");
	if (tl->held) return -16;
	tl->held = 1; verif_locks_held++;
	return 0;
}
int32_t qb_thread_unlock(qb_thread_lock_t *tl)
{
	PROP(tl != NULL && tl->live, "env: unlock() on a live lock");
	PROP(tl->held, "env: unlock() of a held lock");
	tl->held = 0; verif_locks_held--;
	return 0;
}
int32_t qb_thread_lock_destroy(qb_thread_lock_t *tl)
{
	PROP(tl != NULL && tl->live && !tl->held, "env: destroy of a live, released lock");
	tl->live = 0;
	return 0;
}

void qb_atomic_init(void) { }
int32_t qb_atomic_int_exchange_and_add(volatile int32_t QB_GNUC_MAY_ALIAS *atomic, int32_t val)
{ int32_t r = *atomic; *atomic = r + val; return r; }
void qb_atomic_int_add(volatile int32_t QB_GNUC_MAY_ALIAS *atomic, int32_t val) { *atomic = *atomic + val; }
int32_t qb_atomic_int_compare_and_exchange(volatile int32_t QB_GNUC_MAY_ALIAS *atomic, int32_t o, int32_t n)
{ if (*atomic == o) { *atomic = n; return QB_TRUE; } return QB_FALSE; }
int32_t qb_atomic_pointer_compare_and_exchange(volatile void *QB_GNUC_MAY_ALIAS *atomic, void *o, void *n)
{ if (*atomic == o) { *atomic = n; return QB_TRUE; } return QB_FALSE; }
int32_t (qb_atomic_int_get)(volatile int32_t QB_GNUC_MAY_ALIAS *atomic) { return *atomic; }
void (qb_atomic_int_set)(volatile int32_t QB_GNUC_MAY_ALIAS *atomic, int32_t n) { *atomic = n; }
void *(qb_atomic_pointer_get)(volatile void *QB_GNUC_MAY_ALIAS *atomic) { return (void *)*atomic; }
void (qb_atomic_pointer_set)(volatile void *QB_GNUC_MAY_ALIAS *atomic, void *n) { *atomic = n; }
#endif
