/*
 * verif.h -- glue shared by every harness.
 *
 * A harness is ordinary C that #includes real /repo sources and is built
 *   (a) by goto-cc -DVERIF_CBMC for CBMC: inputs are symbolic,
 *   (b) by gcc -fsanitize=address,undefined -DVERIF_REPLAY: inputs are the
 *       concrete values of a CBMC counterexample, written by the engine into
 *       a generated verif_load_inputs().
 *
 * Conventions the engine (lib/engine.py) relies on:
 *   - every symbolic input is a global whose name starts with "in_" and is
 *     made symbolic exactly once with IN(x) (struct/array-in-struct/scalar);
 *     the harness never writes it afterwards.
 *   - property assertions are PROP(cond, "label")  -> description "P:label"
 *   - reachability witnesses are WITNESS("label")  -> description "W:label";
 *     they MUST come back FAILED (reachable), otherwise the harness is vacuous.
 *   - entry point is void harness(void).
 */
#ifndef VERIF_H
#define VERIF_H

#include <stdint.h>
#include <stddef.h>

#ifdef VERIF_CBMC

#define IN(x) do { __typeof__(x) verif_t__; (x) = verif_t__; } while (0)
#define ASSUME(c) __CPROVER_assume(c)
#define PROP(c, label) __CPROVER_assert((c), "P:" label)
#define WITNESS(label) __CPROVER_assert(0, "W:" label)
/* per-branch witnesses cost one SAT call each: only in obligations built with -DVERIF_WITNESS_ALL */
#ifdef VERIF_WITNESS_ALL
#define WITNESS_BRANCH(label) __CPROVER_assert(0, "W:" label)
#else
#define WITNESS_BRANCH(label) ((void)0)
#endif


#else /* native replay */

#include <stdio.h>
#include <stdlib.h>
#define IN(x) ((void)0)
#define ASSUME(c) do { if (!(c)) { \
	fprintf(stderr, "REPLAY: assumption not satisfied: %s (%s:%d)\n", #c, __FILE__, __LINE__); \
	exit(3); } } while (0)
#define PROP(c, label) do { if (!(c)) { \
	fprintf(stderr, "REPLAY: PROPERTY VIOLATED P:%s [%s] (%s:%d)\n", label, #c, __FILE__, __LINE__); \
	exit(1); } } while (0)
#define WITNESS(label) ((void)0)
#define WITNESS_BRANCH(label) ((void)0)
#define __CPROVER_assume(c) ASSUME(c)
void verif_load_inputs(void);
void harness(void);
#define VERIF_MAIN \
	int main(void) { verif_load_inputs(); harness(); \
		fprintf(stderr, "REPLAY: completed, no property violated\n"); return 0; }

#endif

#ifndef VERIF_MAIN
#define VERIF_MAIN
#endif

#endif /* VERIF_H */
