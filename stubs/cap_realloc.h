/*
 * cap_realloc.h -- realloc with a concrete model capacity.
 * A realloc whose size is symbolic (even on an infeasible branch) makes the SAT
 * encoding explode; this model allocates VERIF_REALLOC_CAP bytes and ASSERTS
 * that the request fits, so exceeding the model is an alarm, never a silent pass.
 */
#ifndef VERIF_CAP_REALLOC_H
#define VERIF_CAP_REALLOC_H
#include "verif.h"
#include <stdlib.h>
#include <string.h>
#ifndef VERIF_REALLOC_CAP
#define VERIF_REALLOC_CAP 64
#endif
static void *verif_realloc(void *old, size_t n)
{
	PROP(n <= VERIF_REALLOC_CAP, "env: realloc request within model capacity");
	unsigned char *p = malloc(VERIF_REALLOC_CAP);
	ASSUME(p != NULL);
	if (old != NULL) {
		/* every object this model hands out has VERIF_REALLOC_CAP bytes */
		for (size_t i = 0; i < VERIF_REALLOC_CAP / sizeof(void *); i++) ((void **)p)[i] = ((void **)old)[i];
		free(old);
	}
	return p;
}
#endif
