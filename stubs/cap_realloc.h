/*
 * cap_realloc.h -- realloc with a concrete model capacity.
 * A realloc whose size is symbolic (even on an infeasible branch) makes the SAT
 * encoding explode; this model allocates VERIF_REALLOC_CAP bytes and ASSERTS
 * that the request fits, so exceeding the model is an alarm, never a silent pass.
 */
#ifndef VERIF_CAP_REALLOC_H
#define VERIF_CAP_REALLOC_H
#include "verif.h"
#include <stdlib.h>
#include <string.h>
#ifndef VERIF_REALLOC_CAP
#define VERIF_REALLOC_CAP 64
#endif
/* every realloc'ed object in the units that use this model is an array of POINTERS (qb_array bin table,
 * timerlist heap): the model object is typed void*[] so that loads/stores stay word-typed (a char[] object
 * turns every pointer access into byte_extract/byte_update and blows the formula up ~100x) */
static void *verif_realloc(void *old, size_t n)
{
	PROP(n <= VERIF_REALLOC_CAP, "env: realloc request within model capacity");
	void **p = malloc(sizeof(void *) * (VERIF_REALLOC_CAP / sizeof(void *)));
	ASSUME(p != NULL);
	if (old != NULL) {
		/* every object this model hands out has VERIF_REALLOC_CAP bytes */
		for (size_t i = 0; i < VERIF_REALLOC_CAP / sizeof(void *); i++) p[i] = ((void **)old)[i];
		free(old);
	}
	return p;
}
#endif
