/*
 * pthread_seq.h -- sequential model of pthread mutexes (include BEFORE the /repo unit):
 * lock/unlock succeed and assert correct pairing on a ghost flag.
 */
#ifndef VERIF_PTHREAD_SEQ_H
#define VERIF_PTHREAD_SEQ_H
#include "verif.h"
#include <pthread.h>
#define VERIF_MAX_MUTEX 8
static const void *verif_mtx_addr[VERIF_MAX_MUTEX];
static int verif_mtx_held[VERIF_MAX_MUTEX];
static int verif_mtx_n;
static int verif_mtx_find(const void *m)
{
	for (int i = 0; i < verif_mtx_n; i++) if (verif_mtx_addr[i] == m) return i;
	return -1;
}
static int verif_mutex_init(pthread_mutex_t *m, const void *a)
{
	(void)a;
	int i = verif_mtx_find(m);
	if (i < 0) { PROP(verif_mtx_n < VERIF_MAX_MUTEX, "env: mutex table large enough"); i = verif_mtx_n++; }
	verif_mtx_addr[i] = m; verif_mtx_held[i] = 0;
	return 0;
}
static int verif_mutex_lock(pthread_mutex_t *m)
{
	int i = verif_mtx_find(m);
	PROP(i >= 0, "env: lock of an initialised mutex");
	if (i >= 0) { PROP(!verif_mtx_held[i], "env: mutex not already held (self-deadlock)"); verif_mtx_held[i] = 1; }
	return 0;
}
static int verif_mutex_unlock(pthread_mutex_t *m)
{
	int i = verif_mtx_find(m);
	PROP(i >= 0 && verif_mtx_held[i], "env: unlock of a held mutex");
	if (i >= 0) verif_mtx_held[i] = 0;
	return 0;
}
static int verif_mutex_destroy(pthread_mutex_t *m)
{
	int i = verif_mtx_find(m);
	PROP(i >= 0 && !verif_mtx_held[i], "env: destroy of an initialised, released mutex");
	if (i >= 0) verif_mtx_addr[i] = (const void *)0;
	return 0;
}
#define pthread_mutex_init(m, a) verif_mutex_init((m), (a))
#define pthread_mutex_lock(m) verif_mutex_lock(m)
#define pthread_mutex_unlock(m) verif_mutex_unlock(m)
#define pthread_mutex_destroy(m) verif_mutex_destroy(m)
#endif
