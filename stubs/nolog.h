/* Logging inside libqb is not the subject: empty bodies (DESIGN.md section 3). */
#ifndef VERIF_NOLOG_H
#define VERIF_NOLOG_H
#include <qb/qblog.h>
static struct qb_log_callsite verif_nolog_cs;
struct qb_log_callsite *qb_log_callsite_get2(const char *message_id, const char *function,
		const char *filename, const char *format, uint8_t priority, uint32_t lineno, uint32_t tags)
{ (void)message_id; (void)function; (void)filename; (void)format; (void)priority; (void)lineno; (void)tags;
  return &verif_nolog_cs; }
struct qb_log_callsite *qb_log_callsite_get(const char *function, const char *filename,
		const char *format, uint8_t priority, uint32_t lineno, uint32_t tags)
{ (void)function; (void)filename; (void)format; (void)priority; (void)lineno; (void)tags;
  return &verif_nolog_cs; }
void qb_log_real_(struct qb_log_callsite *cs, ...) { (void)cs; }
void qb_log_from_external_source(const char *function, const char *filename, const char *format,
		uint8_t priority, uint32_t lineno, uint32_t tags, ...)
{ (void)function; (void)filename; (void)format; (void)priority; (void)lineno; (void)tags; }
#ifndef VERIF_KEEP_STRERROR
char *qb_strerror_r(int errnum, char *buf, size_t buflen)
{ (void)errnum; if (buflen) buf[0] = 0; return buf; }
#endif
#endif
