#!/usr/bin/env python3
"""Regenerates /verif/MANIFEST.json from the check specs in /verif/checks (META of each module)."""
import json, os, sys, importlib.util
HERE = os.path.dirname(os.path.dirname(os.path.abspath(__file__)))
sys.path.insert(0, os.path.join(HERE, "lib"))
props = [json.loads(l) for l in open(os.path.join(HERE, "properties.jsonl"))]
checks, na = [], []
NA_REASON = {}
na_path = os.path.join(HERE, "lib", "not_applicable.json")
if os.path.exists(na_path):
    NA_REASON = json.load(open(na_path))
for p in props:
    pid = p["id"]
    path = os.path.join(HERE, "checks", pid + ".py")
    if not os.path.exists(path):
        na.append({"property_id": pid, "reason": NA_REASON.get(pid, "check not built yet in this session (solver-based harness planned in DESIGN.md section 5); nothing is claimed for it")})
        continue
    spec = importlib.util.spec_from_file_location("chk_" + pid, path)
    mod = importlib.util.module_from_spec(spec); spec.loader.exec_module(mod)
    M = mod.META
    checks.append({
        "property_id": pid,
        "quick_cmd": "bin/check %s --tier quick" % pid,
        "thorough_cmd": "bin/check %s --tier thorough" % pid,
        "evidence_file": "/verif/evidence/%s.json" % pid,
        "replay_cmd_template": "sh {path}/replay.sh",
        "engine": "cbmc",
        "level_claimed": {"category": "model_checking", "text": M["level_text"], "design_ref": M.get("design_ref", "DESIGN.md section 5 " + pid)},
        "level_note": M["level_note"],
        "technique": M.get("technique", "bounded symbolic execution of the real C units with CBMC (SAT), harness assertions vs. ghost model"),
    })
man = {
    "version": 1,
    "setup_cmd": "true",
    "hooks": {"guard": "QB_VERIF_HOOKS", "enable": "harness/c01_yield.c defines QB_VERIF_HOOKS before including /repo/lib/ringbuffer.c (QB_VERIF_YIELD scheduling points between shared accesses); every other harness includes the real units with the guard off; all are compiled with goto-cc -DHAVE_CONFIG_H -I/repo/include -I/repo/lib from the working tree on every run",
              "baseline_off_cmd": "make -C /repo -j8 && make -C /repo/tests check",
              "source_commits": ["c45988a"], "add_only": True},
    "engines": [{"name": "cbmc", "path": "/verif/lib/engine.py", "serves_properties": [c["property_id"] for c in checks],
                 "kind_free_text": "CBMC 6.11 bounded model checking of the real libqb C translation units (goto-cc from /repo working tree on every run), SAT back end, unwinding assertions, reachability witnesses, native ASan replay of counterexamples"}],
    "checks": checks,
    "not_applicable": na,
    "notes": "All checks are solver-based (CBMC). Exit 0 = all obligations decided to hold within the stated bounds (known findings listed in known_findings.txt are printed as KNOWN-FINDING); exit 1 + VIOLATION line = counterexample found and replayed natively against the current /repo sources; exit 2 = infrastructure problem (timeout, vacuous harness, bound too small) - never a pass.",
}
json.dump(man, open(os.path.join(HERE, "MANIFEST.json"), "w"), indent=1)
print("MANIFEST.json: %d checks, %d not_applicable" % (len(checks), len(na)))
