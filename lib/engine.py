#!/usr/bin/env python3
"""
Solver-based checking engine for /repo (libqb).

One *obligation* = one goto binary (harness + real /repo sources, compiled by
goto-cc from the CURRENT working tree) + one CBMC query deciding every
assertion in it for all symbolic inputs inside the stated bounds.

Conventions (see stubs/verif.h):
  P:<label>  property assertion          must be SUCCESS
  W:<label>  reachability witness        must be FAILURE (else: vacuous)
  built-in memory checks inside the encoded code must be SUCCESS
  unwinding assertions must be SUCCESS (else the bound is too small: error)

Exit codes of a check: 0 held / only known findings; 1 VIOLATION;
2 infrastructure problem (timeout, vacuous harness, bound too small,
counterexample that does not replay) -- never reported as a pass.
"""
import json, os, re, shutil, subprocess, sys, tempfile, threading, time, resource
from concurrent.futures import ThreadPoolExecutor

REPO = os.environ.get("VERIF_REPO", "/repo")
VERIF = os.path.dirname(os.path.dirname(os.path.abspath(__file__)))
CC_FLAGS = ["-DHAVE_CONFIG_H", "-I%s/include" % REPO, "-I%s/include/qb" % REPO,
            "-I%s/lib" % REPO, "-I%s/stubs" % VERIF, "-I%s/harness" % VERIF]
TOTAL_MEM_GB = 52
ENTRY_TIMEOUT_FLOOR = int(os.environ.get("VERIF_ENTRY_TIMEOUT", "900"))
JOBS = int(os.environ.get("VERIF_JOBS", str(os.cpu_count() or 4)))


class Obl(object):
    def __init__(self, name, harness, defs=None, unwind=None, unwindset=None,
                 flags=None, timeout=600, mem_gb=8, paths=False, allow_fail=None,
                 bounds=None, units=None, stubs=None, kf=None, replay=True,
                 object_bits=None, checks="std", note="", assumptions=None,
                 entry="harness", solver=None, expect_unreached=None, n_entries=0, entries=None):
        self.name = name
        self.harness = harness
        self.defs = defs or []
        self.unwind = unwind
        self.unwindset = unwindset or {}
        self.flags = flags or []
        self.timeout = timeout
        self.mem_gb = mem_gb
        self.paths = paths
        self.allow_fail = allow_fail or []
        self.bounds = bounds or {}
        self.units = units or []
        self.stubs = stubs or []
        self.kf = kf or []
        self.replay = replay
        self.object_bits = object_bits
        self.checks = checks          # "std" | "nopointer" | "none"
        self.note = note
        self.assumptions = assumptions or []
        self.entry = entry
        self.solver = solver
        self.expect_unreached = expect_unreached   # regex: W: labels that this obligation prunes by construction
        # n_entries > 0: the harness defines `void harness_scenario(int)`; the engine generates entry points
        # harness_0 .. harness_<n-1> (constant argument each) and decides each with its own CBMC run on the same binary
        self.n_entries = n_entries
        # entries: the subset of scenario indices this obligation decides (None = all n_entries); lets one table be
        # split into obligations that run on different cores
        self.entries = entries


# ----------------------------------------------------------------------------
class MemGate(object):
    """Admit obligations so that the sum of declared memory stays below RAM."""
    def __init__(self, total):
        self.total = total
        self.used = 0
        self.cv = threading.Condition()

    def acquire(self, n):
        n = min(n, self.total)
        with self.cv:
            while self.used + n > self.total:
                self.cv.wait()
            self.used += n

    def release(self, n):
        n = min(n, self.total)
        with self.cv:
            self.used -= n
            self.cv.notify_all()


GATE = MemGate(TOTAL_MEM_GB)


import signal, atexit
_CHILDREN = set()
_CH_LOCK = threading.Lock()


def _kill_children(*a):
    with _CH_LOCK:
        for pid in list(_CHILDREN):
            try:
                os.killpg(pid, 9)
            except Exception:
                pass
    if a:
        os._exit(143)


atexit.register(_kill_children)
try:
    signal.signal(signal.SIGTERM, _kill_children)
    signal.signal(signal.SIGINT, _kill_children)
except Exception:
    pass


def run(cmd, timeout=None, mem_gb=None, cwd=None, env=None):
    def pre():
        os.setsid()
        if mem_gb:
            lim = int(mem_gb * (1 << 30))
            resource.setrlimit(resource.RLIMIT_AS, (lim, lim))
    t0 = time.time()
    if env is None:
        env = dict(os.environ)
    env["PATH"] = os.path.join(VERIF, "bin", "shim") + os.pathsep + env.get("PATH", "")
    p = subprocess.Popen(cmd, stdout=subprocess.PIPE, stderr=subprocess.PIPE,
                         cwd=cwd, env=env, preexec_fn=pre)
    with _CH_LOCK:
        _CHILDREN.add(p.pid)
    try:
        out, err = p.communicate(timeout=timeout)
        to = False
    except subprocess.TimeoutExpired:
        try:
            os.killpg(p.pid, 9)
        except Exception:
            pass
        out, err = p.communicate()
        to = True
    with _CH_LOCK:
        _CHILDREN.discard(p.pid)
    ru = resource.getrusage(resource.RUSAGE_CHILDREN)
    return p.returncode, out.decode("utf-8", "replace"), err.decode("utf-8", "replace"), time.time() - t0, to


def compile_gb(ob, work, extra_defs=()):
    gb = os.path.join(work, ob.name + ("-kf" if extra_defs else "") + ".gb")
    src = os.path.join(VERIF, "harness", ob.harness)
    entry = ob.entry
    if ob.n_entries:
        wrap = os.path.join(work, ob.name + ("-kf" if extra_defs else "") + "-entries.c")
        with open(wrap, "w") as f:
            f.write('#include "%s"\n' % src)
            for i in range(ob.n_entries):
                f.write("void harness_%d(void) { harness_scenario(%d); }\n" % (i, i))
        src, entry = wrap, "harness_0"
    cmd = ["goto-cc", "-DVERIF_CBMC"] + CC_FLAGS + ["-D" + d for d in ob.defs] + ["-D" + d for d in extra_defs] + \
          [src, "--function", entry, "-o", gb]
    rc, out, err, dt, to = run(cmd, timeout=300)
    if rc != 0 or not os.path.exists(gb):
        return None, (out + err)[-4000:]
    return gb, ""


def loops_of(gb):
    rc, out, err, dt, to = run(["goto-instrument", "--show-loops", gb], timeout=120)
    loops = re.findall(r"^Loop (\S+):", out, re.M)
    return loops


def build_unwindset(ob, gb):
    if not ob.unwindset:
        return []
    loops = loops_of(gb)
    items = []
    for key, bound in ob.unwindset.items():
        if re.search(r"\.\d+$", key):
            items.append("%s:%d" % (key, bound))
        else:
            hit = [l for l in loops if l.rsplit(".", 1)[0] == key]
            for l in hit:
                items.append("%s:%d" % (l, bound))
    return ["--unwindset", ",".join(items)] if items else []


def cbmc_cmd(ob, gb, trace=False, prop=None, entry=None):
    cmd = ["cbmc", gb] + (["--function", entry] if entry else []) + ["--json-ui", "--verbosity", ("4" if ob.n_entries else "8"), "--unwinding-assertions", "--drop-unused-functions",
           "--no-malloc-may-fail", "--no-pointer-primitive-check",
           "--no-signed-overflow-check", "--no-undefined-shift-check"]
    if ob.checks == "nopointer":
        cmd += ["--no-pointer-check"]
    elif ob.checks == "none":
        cmd += ["--no-standard-checks", "--unwinding-assertions", "--no-malloc-may-fail"]
        cmd.remove("--no-pointer-primitive-check")
        cmd.remove("--no-signed-overflow-check")
        cmd.remove("--no-undefined-shift-check")
    if ob.unwind is not None:
        cmd += ["--unwind", str(ob.unwind)]
    cmd += build_unwindset(ob, gb)
    if ob.paths:
        cmd += ["--paths", "lifo"]
    if ob.object_bits:
        cmd += ["--object-bits", str(ob.object_bits)]
    if ob.solver == "cadical":
        cmd += ["--sat-solver", "cadical"]
    elif ob.solver == "kissat":
        cmd += ["--external-sat-solver", "kissat"]
    elif ob.solver == "cvc5-int":
        # SMT back end; bin/shim/cvc5 adds --solve-bv-as-int=sum (see run(): PATH is prefixed with bin/shim)
        cmd += ["--cvc5", "--slice-formula"]
    cmd += ob.flags
    if trace:
        cmd += ["--trace"]
        if prop:
            cmd += ["--property", prop]
    return cmd


JQ_COMPACT = r'''
[ .[] | if (type == "object") and has("result") then
    { result: [ .result[] | select(.status != "SUCCESS" or (.description|startswith("P:")) or (.description|startswith("W:")) or ((.property // "")|contains(".assertion."))) | del(.trace) ],
      okCounts: ( [ .result[] | select(.status == "SUCCESS") | (.property // "") as $p | .description as $d |
          if ($d|startswith("P:")) or ($d|startswith("W:")) then empty
          elif ($p|contains(".unwind.")) or ($d|startswith("unwinding assertion")) or ($p|contains(".recursion")) then "U"
          elif ($p|contains(".overflow.")) or ($p|contains(".pointer_arithmetic.")) or ($p|contains(".undefined-shift.")) then "O"
          elif ($p|contains(".assertion.")) then empty
          else "M" end ] | group_by(.) | map({(.[0]): length}) | add // {} ) }
  else . end ]
'''


def parse_cbmc(out):
    """Return (props, messages, stats). props: list of dict(property,status,description,file,function,line,trace)"""
    props, msgs = [], []
    stats = {"symex_s": 0.0, "solver_s": 0.0, "steps": 0, "vars": 0, "clauses": 0, "vccs": 0,
             "remaining_vccs": 0, "paths": 0, "verdict": None, "error": None}
    try:
        data = json.loads(out)
    except Exception as e:
        # truncated JSON (timeout / kill): try to salvage messages
        stats["error"] = "unparsable cbmc output (%s)" % e
        return props, msgs, stats
    for e in data:
        if "messageText" in e:
            t = e["messageText"]
            msgs.append(t)
            m = re.match(r"Runtime Symex: ([\d.e+-]+)s", t)
            if m: stats["symex_s"] += float(m.group(1))
            m = re.match(r"Runtime Solver: ([\d.e+-]+)s", t)
            if m: stats["solver_s"] += float(m.group(1))
            m = re.match(r"size of program expression: (\d+) steps", t)
            if m: stats["steps"] += int(m.group(1))
            m = re.match(r"(\d+) variables, (\d+) clauses", t)
            if m:
                stats["vars"] = max(stats["vars"], int(m.group(1)))
                stats["clauses"] = max(stats["clauses"], int(m.group(2)))
            m = re.match(r"Generated (\d+) VCC\(s\), (\d+) remaining after simplification", t)
            if m:
                stats["vccs"] += int(m.group(1)); stats["remaining_vccs"] += int(m.group(2))
                stats["paths"] += 1
            if e.get("messageType") == "ERROR":
                stats["error"] = t
        if "result" in e:
            for r in e["result"]:
                sl = r.get("sourceLocation", {})
                props.append({"property": r.get("property"), "status": r.get("status"),
                              "description": r.get("description", ""),
                              "file": sl.get("file", ""), "function": sl.get("function", ""),
                              "line": sl.get("line", ""), "trace": r.get("trace")})
        if "okCounts" in e:
            # output compacted by JQ_COMPACT: successful built-in checks arrive as per-class counts
            for k, v in e["okCounts"].items():
                stats.setdefault("ok_counts", {})
                stats["ok_counts"][k] = stats["ok_counts"].get(k, 0) + v
        if "cProverStatus" in e:
            stats["verdict"] = e["cProverStatus"]
    return props, msgs, stats


def classify(p):
    d = p["description"]
    pid = p["property"] or ""
    if d.startswith("P:"): return "P"
    if d.startswith("W:"): return "W"
    if ".unwind." in pid or d.startswith("unwinding assertion"): return "U"
    if ".recursion" in pid: return "U"
    if ".overflow." in pid or ".pointer_arithmetic." in pid or ".undefined-shift." in pid: return "O"
    if ".assertion." in pid: return "A"      # assert() inside libqb or plain assert in harness
    return "M"                                 # memory-safety style built-in checks


def peak_rss_kb():
    return resource.getrusage(resource.RUSAGE_CHILDREN).ru_maxrss


# ----------------------------------------------------------------------------
def flatten_value(lhs, v, out):
    if v is None:
        return
    if "binary" in v:
        out[lhs] = v
    elif "members" in v:
        for m in v["members"]:
            flatten_value(lhs + "." + m["name"], m.get("value"), out)
    elif "elements" in v:
        for el in v["elements"]:
            flatten_value("%s[%s]" % (lhs, el["index"]), el.get("value"), out)


def inputs_from_trace(trace):
    vals = {}
    for s in trace or []:
        if s.get("stepType") != "assignment":
            continue
        lhs = s.get("lhs", "")
        if not lhs.startswith("in_"):
            continue
        lhs = re.sub(r"\[(\d+)[a-zA-Z]*\]", r"[\1]", lhs)
        flatten_value(lhs, s.get("value"), vals)
    return vals


def c_literal(v):
    b = v["binary"]
    t = v.get("type", "")
    n = int(b, 2)
    w = len(b)
    signed = not (t.startswith("unsigned") or t.startswith("uint") or t in ("size_t", "__CPROVER_size_t", "_Bool", "char") and False)
    if t.startswith("unsigned") or t.startswith("uint") or t in ("size_t", "__CPROVER_size_t", "_Bool"):
        return "(%s)0x%xULL" % (t if t != "__CPROVER_size_t" else "size_t", n)
    if n >= (1 << (w - 1)):
        n -= (1 << w)
    if n == -(1 << 63):
        return "(%s)(-9223372036854775807LL-1)" % t
    return "(%s)%dLL" % (t, n)


def write_inputs_c(vals, path, header=""):
    with open(path, "w") as f:
        f.write("/* generated from a CBMC counterexample -- concrete values of the symbolic inputs */\n")
        f.write(header)
        f.write("void verif_load_inputs(void)\n{\n")
        for lhs in sorted(vals, key=lambda s: [int(x) if x.isdigit() else x for x in re.split(r"(\d+)", s)]):
            v = vals[lhs]
            if v.get("name") == "pointer" or "$" in lhs:
                continue
            f.write("\t%s = %s;\n" % (lhs, c_literal(v)))
        f.write("}\n")


NATIVE_FLAGS = ["-g", "-O0", "-fsanitize=address,undefined", "-fno-sanitize-recover=undefined",
                "-fno-omit-frame-pointer", "-w", "-DVERIF_REPLAY",
                "-ffunction-sections", "-fdata-sections"]
NATIVE_LINK = ["-Wl,--gc-sections", "-Wl,--allow-multiple-definition"]
_ARCHIVE_LOCK = threading.Lock()
_ARCHIVE = {}


def native_archive():
    """libqb's own units (current /repo tree) as a static archive: resolves whatever the included units reference
    but the harness does not define; harness definitions come first on the link line and win."""
    with _ARCHIVE_LOCK:
        if "path" in _ARCHIVE:
            return _ARCHIVE["path"]
        d = os.path.join(_ARCHIVE.get("outdir") or tempfile.mkdtemp(prefix="verif-nativelib-"), "nativelib")
        shutil.rmtree(d, ignore_errors=True)
        os.makedirs(d, exist_ok=True)
        objs = []
        for src in native_lib_sources():
            o = os.path.join(d, os.path.basename(src)[:-2] + ".o")
            rc, out, err, dt, to = run(["gcc", "-c"] + NATIVE_FLAGS + CC_FLAGS + [src, "-o", o], timeout=300)
            if rc == 0:
                objs.append(o)
        a = os.path.join(d, "libqb_native.a")
        run(["ar", "rcs", a] + objs, timeout=120)
        _ARCHIVE["path"] = a if os.path.exists(a) else None
        for o in objs:
            try:
                os.unlink(o)
            except OSError:
                pass
        return _ARCHIVE["path"]


def native_replay(ob, vals, outdir, extra_defs=(), entry=None):
    """Compile the same harness natively against current /repo sources and run with the counterexample values."""
    os.makedirs(outdir, exist_ok=True)
    hpath = os.path.join(VERIF, "harness", ob.harness)
    # the generated loader needs the declarations of the in_ globals: include the harness itself
    loader = os.path.join(outdir, "inputs.c")
    write_inputs_c(vals, loader)
    main_c = os.path.join(outdir, "replay_main.c")
    with open(main_c, "w") as f:
        f.write('#include "%s"\n#include "%s"\n' % (hpath, loader))
        if entry:
            f.write("void harness(void) { harness_scenario(%s); }\n" % entry.split("_")[-1])
        f.write("VERIF_MAIN\n")
    exe = os.path.join(outdir, "replay.bin")
    cmd = ["gcc"] + NATIVE_FLAGS + CC_FLAGS + ["-D" + d for d in ob.defs] + ["-D" + d for d in extra_defs] + \
          [main_c] + NATIVE_LINK + ["-o", exe] + ([native_archive()] if native_archive() else []) + ["-lpthread", "-lrt", "-ldl"]
    with open(os.path.join(outdir, "replay.sh"), "w") as f:
        f.write("#!/bin/sh\n# rebuilds the harness natively from the current /repo tree and runs the counterexample\n")
        f.write("set -e\n" + " ".join("'%s'" % c for c in cmd) + "\n")
        f.write("ASAN_OPTIONS=detect_leaks=0 '%s'\n" % exe)
    os.chmod(os.path.join(outdir, "replay.sh"), 0o755)
    rc, out, err, dt, to = run(cmd, timeout=300)
    if rc != 0:
        return {"built": False, "reproduced": False, "log": (out + err)[-3000:]}
    env = dict(os.environ, ASAN_OPTIONS="detect_leaks=0:abort_on_error=0", UBSAN_OPTIONS="print_stacktrace=1")
    rc, out, err, dt, to = run([exe], timeout=120, env=env, cwd=outdir)
    log = (out + err)
    reproduced = ("REPLAY: PROPERTY VIOLATED" in log) or ("AddressSanitizer" in log) or \
                 ("runtime error:" in log) or (rc not in (0, 3) and rc is not None and "Assertion" in log) or (rc is not None and rc < 0)
    try:
        os.unlink(exe)
    except OSError:
        pass
    with open(os.path.join(outdir, "replay.log"), "w") as f:
        f.write(log[-20000:])
    return {"built": True, "reproduced": bool(reproduced), "rc": rc, "log": log[-3000:],
            "assume_failed": rc == 3}


# ----------------------------------------------------------------------------
def run_obligation(ob, work, extra_defs=(), want_trace_for=None, only_entries=None):
    """Compile + decide one obligation. Returns a result dict.
    only_entries: indices of the scenario entry points to run (re-run of the failing scenarios of a table obligation)."""
    res = {"name": ob.name, "harness": ob.harness, "defs": ob.defs + list(extra_defs), "bounds": ob.bounds,
           "status": "error", "detail": "", "failed": [], "props": {}, "stats": {}, "wall_s": 0.0}
    t0 = time.time()
    GATE.acquire(ob.mem_gb)
    try:
        gb, err = compile_gb(ob, work, extra_defs)
        if gb is None:
            res["detail"] = "goto-cc failed: " + err
            return res
        res["gb"] = gb
        idxs = list(range(ob.n_entries)) if ob.n_entries else []
        if ob.n_entries and ob.entries is not None:
            idxs = sorted(set(i for i in ob.entries if 0 <= i < ob.n_entries))
        if ob.n_entries and only_entries is not None:
            idxs = sorted(set(i for i in only_entries if i in idxs))
        # per-scenario budget: a scenario that needs 2-100 s on an idle machine must not be reported as an
        # infrastructure failure because the machine is loaded or slower; the budget only matters on a diverging tree
        etimeout = max(ob.timeout, ENTRY_TIMEOUT_FLOOR)
        entries = ["harness_%d" % i for i in idxs] if ob.n_entries else [None]
        props, stats = [], None
        res["cbmc_s"] = 0.0
        outputs = []
        if ob.n_entries:
            # one shell loop runs all entry points (forking from this large multi-threaded process per entry is slow)
            script = os.path.join(work, ob.name + ("-kf" if extra_defs else "") + "-run.sh")
            base = cbmc_cmd(ob, gb, entry="@ENTRY@")
            jqf = os.path.join(work, "compact.jq")
            if not os.path.exists(jqf):
                tmpn = "%s.tmp%d-%d" % (jqf, os.getpid(), threading.get_ident())
                with open(tmpn, "w") as f:
                    f.write(JQ_COMPACT)
                os.replace(tmpn, jqf)
            with open(script, "w") as f:
                # cbmc's JSON (10-25 MB per scenario: every built-in check with its source location) is reduced by jq
                # to the failed / property / witness entries plus per-class counts of the successful built-in checks,
                # so that this (single-threaded) Python process does not parse gigabytes
                f.write("#!/bin/bash\nfor i in %s; do\n  t0=$(date +%%s.%%N)\n" % " ".join(str(i) for i in idxs))
                f.write("  timeout %d " % etimeout + " ".join("'%s'" % c for c in base).replace("@ENTRY@", "harness_$i").replace("'harness_$i'", "\"harness_$i\"") +
                        " 2> '%s.err.'$i | jq -c -f '%s' > '%s.out.'$i\n" % (gb, jqf, gb))
                f.write("  echo ${PIPESTATUS[0]} > '%s.rc.'$i\n" % gb)
                f.write("  echo \"$i $(echo \"$(date +%%s.%%N) - $t0\" | bc)\" >> '%s.times'\n" % gb)
                # a scenario that ran out of time makes the whole obligation undecided: do not spend the others' budget
                f.write("  if [ \"$(cat '%s.rc.'$i)\" = 124 ]; then break; fi\ndone\n" % gb)
            res["cmd"] = " ".join(base[:1] + ["<gb>"] + base[2:])
            rc, out, errt, dt, to = run(["bash", script], timeout=etimeout * len(idxs) + 60, mem_gb=ob.mem_gb)
            res["cbmc_s"] = round(dt, 2)
            try:
                res["entry_wall_s"] = {"harness_" + l.split()[0]: round(float(l.split()[1]), 1)
                                       for l in open(gb + ".times").read().splitlines() if len(l.split()) == 2}
                os.unlink(gb + ".times")
            except (OSError, ValueError):
                pass
            if to:
                res["status"] = "timeout"
                res["detail"] = "cbmc entry loop exceeded its budget"
                return res
            for i, ent in zip(idxs, entries):
                try:
                    o = open("%s.out.%d" % (gb, i)).read()
                    e = open("%s.err.%d" % (gb, i)).read()
                    r = int(open("%s.rc.%d" % (gb, i)).read().strip() or 0)
                except Exception as ex:
                    o, e, r = "", str(ex), -1
                if r == 124:
                    res["status"] = "timeout"
                    res["detail"] = "cbmc exceeded %ds in entry %s" % (etimeout, ent)
                    return res
                outputs.append((ent, r, o, e))
                for suffix in ("out", "err", "rc"):
                    try:
                        os.unlink("%s.%s.%d" % (gb, suffix, i))
                    except OSError:
                        pass
        else:
            cmd = cbmc_cmd(ob, gb)
            res["cmd"] = " ".join(cmd[:1] + ["<gb>"] + cmd[2:])
            rc, out, errt, dt, to = run(cmd, timeout=ob.timeout, mem_gb=ob.mem_gb)
            res["cbmc_s"] = round(dt, 2)
            if to:
                res["status"] = "timeout"
                res["detail"] = "cbmc exceeded %ds" % ob.timeout
                return res
            outputs.append((None, rc, out, errt))
        for ent, rc, out, errt in outputs:
            eprops, msgs, estats = parse_cbmc(out)
            if estats.get("error") and not eprops:
                res["stats"] = estats
                res["detail"] = "cbmc%s: %s | %s" % ((" entry " + ent) if ent else "", estats["error"], errt[-500:])
                if rc in (-9, 137) or "out of memory" in (errt + out).lower() or "bad_alloc" in (errt + out):
                    res["status"] = "oom"
                return res
            if not eprops:
                res["detail"] = "cbmc produced no property results (rc=%s)%s: %s" % (rc, (" entry " + ent) if ent else "", (errt or out)[-800:])
                return res
            for p in eprops:
                p["entry"] = ent
            for k, v in (estats.get("ok_counts") or {}).items():
                res.setdefault("_ok_counts", {}).setdefault(k, 0)
                res["_ok_counts"][k] += v
            if ob.n_entries:
                # keep memory bounded: successful built-in checks are only counted
                keep = []
                for p in eprops:
                    if p["status"] == "SUCCESS" and classify(p) in ("M", "O", "U"):
                        res.setdefault("_ok_counts", {}).setdefault(classify(p), 0)
                        res["_ok_counts"][classify(p)] += 1
                    else:
                        keep.append(p)
                eprops = keep
            props += eprops
            if stats is None:
                stats = estats
            else:
                for k in ("symex_s", "solver_s", "steps", "vccs", "remaining_vccs", "paths"):
                    stats[k] = (stats.get(k) or 0) + (estats.get(k) or 0)
                for k in ("vars", "clauses"):
                    stats[k] = max(stats.get(k) or 0, estats.get(k) or 0)
        res["stats"] = stats
        res["entries"] = len(entries)
        by = {"P": [], "W": [], "U": [], "O": [], "A": [], "M": []}
        for p in props:
            by[classify(p)].append(p)
        res["props"] = {k: len(v) + res.get("_ok_counts", {}).get(k, 0) for k, v in by.items()}
        res["props_ok"] = {k: sum(1 for p in v if p["status"] == "SUCCESS") + res.get("_ok_counts", {}).get(k, 0) for k, v in by.items()}
        allow = [re.compile(a) for a in ob.allow_fail]
        def allowed(p):
            return any(a.search(p["property"] or "") for a in allow)
        failed_P = [p for p in by["P"] + by["A"] if p["status"] == "FAILURE" and not allowed(p)]
        failed_M = [p for p in by["M"] if p["status"] == "FAILURE" and not allowed(p)]
        failed_U = [p for p in by["U"] if p["status"] == "FAILURE" and not allowed(p)]
        if ob.expect_unreached:
            eu = re.compile(ob.expect_unreached)
            by["W"] = [p for p in by["W"] if not eu.search(p["description"])]
        unreached_W = [p for p in by["W"] if p["status"] != "FAILURE"]
        other = [p for p in props if p["status"] not in ("SUCCESS", "FAILURE")]
        if failed_P or failed_M:
            # CBMC reports checks that follow a failed built-in check on the same path as UNKNOWN: the failure is what counts
            other = [p for p in other if p["status"] != "UNKNOWN"]
        res["witness_total"] = len(by["W"])
        res["witness_reached"] = len(by["W"]) - len(unreached_W)
        res["ub_notes"] = ["%s %s (%s:%s)" % (p["property"], p["description"], os.path.basename(p["file"]), p["line"])
                           for p in by["O"] if p["status"] == "FAILURE"]
        def brief(p):
            return {"property": p["property"], "description": p["description"], "entry": p.get("entry"),
                    "site": "%s:%s:%s" % (p["file"].replace(REPO + "/", ""), p["function"], p["line"])}
        if failed_P or failed_M:
            # a counterexample inside the explored bound is a counterexample, whether or not some loop also needs more
            # unwinding (e.g. a change that makes a loop run 4097 times); it still has to replay natively
            res["status"] = "fail"
            res["failed"] = [brief(p) for p in failed_P + failed_M]
            if failed_U:
                res["detail"] = "also: unwinding assertion failed: " + ", ".join(p["property"] for p in failed_U[:3])
        elif failed_U:
            res["status"] = "bound"
            res["detail"] = "unwinding assertion failed (bound too small): " + ", ".join(p["property"] for p in failed_U[:5])
            res["failed"] = [brief(p) for p in failed_U]
        elif other:
            res["status"] = "error"
            res["detail"] = "undecided properties: " + ", ".join("%s=%s" % (p["property"], p["status"]) for p in other[:5])
        elif not by["W"]:
            res["status"] = "vacuous"
            res["detail"] = "harness has no reachability witness"
        elif unreached_W and not extra_defs:
            # (in a re-run with known-finding triggers assumed away, scenarios that consist of the trigger are
            #  legitimately cut; reachability was established by the unrestricted run of the same obligation)
            res["status"] = "vacuous"
            res["detail"] = "witness not reachable: " + ", ".join(p["description"] for p in unreached_W[:5])
        elif not (by["P"] or by["A"] or by["M"]):
            res["status"] = "vacuous"
            res["detail"] = "no property assertion survived"
        else:
            res["status"] = "pass"
        return res
    finally:
        GATE.release(ob.mem_gb)
        res["wall_s"] = round(time.time() - t0, 2)


def trace_for(ob, gb, prop_id, entry=None):
    cmd = cbmc_cmd(ob, gb, trace=True, prop=prop_id, entry=entry)
    rc, out, err, dt, to = run(cmd, timeout=(max(ob.timeout, ENTRY_TIMEOUT_FLOOR) if entry else ob.timeout) * 2, mem_gb=ob.mem_gb)
    if to:
        return None
    props, msgs, stats = parse_cbmc(out)
    for p in props:
        if p["property"] == prop_id and p["status"] == "FAILURE" and p.get("trace"):
            return p["trace"]
    for p in props:
        if p["status"] == "FAILURE" and p.get("trace") and classify(p) in ("P", "A", "M"):
            return p["trace"]
    return None


def load_known():
    known, fixed = {}, []
    path = os.path.join(VERIF, "known_findings.txt")
    if os.path.exists(path):
        for line in open(path):
            line = line.strip()
            if line.startswith("known:"):
                kv = dict(re.findall(r"(\w+)=(\S+)", line))
                kv["text"] = line
                known[kv.get("id", "")] = kv
            elif line.startswith("fixed:"):
                fixed.append(line)
    return known, fixed


LIB_UNITS = ["util.c", "hdb.c", "ringbuffer.c", "ringbuffer_helper.c", "array.c", "loop.c", "loop_poll.c",
             "loop_job.c", "loop_timerlist.c", "ipcc.c", "ipcs.c", "ipc_shm.c", "ipc_setup.c", "ipc_socket.c",
             "log.c", "log_thread.c", "log_blackbox.c", "log_file.c", "log_syslog.c", "log_dcs.c", "log_format.c",
             "map.c", "skiplist.c", "hashtable.c", "trie.c", "unix.c", "loop_poll_epoll.c", "strlcpy.c", "strlcat.c"]


def native_lib_sources():
    """the units of libqb.la on this platform (lib/Makefile.am: source_to_lint + unix.c + epoll + LTLIBOBJS)"""
    return [os.path.join(REPO, "lib", f) for f in LIB_UNITS if os.path.exists(os.path.join(REPO, "lib", f))]


def run_l2(l2file, work):
    """Public-API replay of a known finding: compile the l2 program with ALL of /repo/lib/*.c (current tree), run."""
    src = os.path.join(VERIF, "l2", l2file)
    exe = os.path.join(work, "l2-" + os.path.basename(l2file) + ".bin")
    libsrc = native_lib_sources()
    cmd = ["gcc", "-g", "-O0", "-w", "-fsanitize=address,undefined", "-fno-sanitize-recover=undefined",
           "-DHAVE_CONFIG_H", "-I%s/include" % REPO, "-I%s/include/qb" % REPO, "-I%s/lib" % REPO,
           src] + libsrc + ["-o", exe, "-lpthread", "-lrt", "-ldl"]
    rc, out, err, dt, to = run(cmd, timeout=300)
    if rc != 0:
        return {"built": False, "log": (out + err)[-2000:]}
    env = dict(os.environ, ASAN_OPTIONS="detect_leaks=0")
    rc, out, err, dt, to = run([exe], timeout=120, env=env, cwd=work)
    try:
        os.unlink(exe)
    except OSError:
        pass
    log = out + err
    return {"built": True, "rc": rc, "reproduced": ("L2: DEFECT REPRODUCED" in log) or ("AddressSanitizer" in log),
            "log": log[-2000:]}


# ----------------------------------------------------------------------------
def functions_encoded(gb, entry="harness"):
    """functions with a body that are reachable from the entry point in the goto binary (call graph), harness helpers excluded"""
    rc, out, err, dt, to = run(["goto-instrument", "--list-goto-functions", gb], timeout=120)
    have_body = set()
    for l in out.splitlines():
        m = re.match(r"^(\S+) /\* .* \*/$", l.strip())
        if m and "body not available" not in l:
            have_body.add(m.group(1))
    rc, out, err, dt, to = run(["goto-instrument", "--reachable-call-graph", gb], timeout=120)
    reach = set()
    for l in out.splitlines():
        m = re.match(r"^(\S+) -> (\S+)$", l.strip())
        if m:
            reach.add(m.group(1)); reach.add(m.group(2))
    fns = (have_body & reach) if reach else have_body
    skip = re.compile(r"^(__CPROVER|__atomic|verif_|harness|ghost_|ring_|st_|v_|in_|do_|check_|run_|s_|t_|p_|cb$|cb_|job_cb|timer_cb|fd_|notify_cb|key_cb|oracle_|expect|kf_|key_index|val_index|stop_after_one|full_iteration|reset_all|mkstr|snapshot|dtor|entry_of|matches|add_one|expire_and_check|build_dir|ser$|do_serialize|iteration|three_iterations|post$|worker_iteration|level_pending|add_job|injected_cb|new_bin|disjoint|msg_process|writer$|wmod|bmod|ring_off|before_expiry|expiry_|exp_|overflows|removed_under|any_removed|total_scenarios|qb_verif_yield|gsem_of)")
    return sorted(f for f in fns if not skip.search(f))


def run_check(pid, tier, obligations, meta):
    t_start = time.time()
    seed = int(os.environ.get("VERIF_SEED", "0") or 0)
    work = tempfile.mkdtemp(prefix="verif-%s-" % pid, dir=os.environ.get("TMPDIR") or "/tmp")
    outdir = os.path.join(VERIF, "out", pid)
    shutil.rmtree(outdir, ignore_errors=True)
    os.makedirs(outdir, exist_ok=True)
    _ARCHIVE.clear()
    _ARCHIVE["outdir"] = outdir
    known, fixed = load_known()
    lines, results, violations, infra = [], [], 0, []
    kf_reported = {}
    try:
        with ThreadPoolExecutor(max_workers=JOBS) as ex:
            futs = [(ob, ex.submit(run_obligation, ob, work)) for ob in obligations]
            pending = []
            for ob, f in futs:
                r = f.result()
                results.append((ob, r))
                print("[%s] %-40s %-8s %6.1fs  %s" % (pid, ob.name, r["status"], r["wall_s"], r["detail"][:200]), flush=True)
        final = []
        # failing obligations that name known findings are re-decided with those findings assumed away (in parallel)
        reruns = {}
        with ThreadPoolExecutor(max_workers=JOBS) as ex:
            for ob, r in results:
                if r["status"] == "fail":
                    kfs = [k for k in ob.kf if k in known and known[k].get("property") == pid]
                    if kfs:
                        defs = [known[k]["define"] for k in kfs if known[k].get("define")]
                        only = None
                        if ob.n_entries:
                            # scenarios that passed without the exclusion pass with it (the define only assumes
                            # behaviours away): re-decide the failing scenarios only
                            only = [int(f["entry"].rsplit("_", 1)[1]) for f in r["failed"] if f.get("entry")]
                        reruns[ob.name] = ex.submit(run_obligation, ob, work, extra_defs=defs, only_entries=only)
        for ob, r in results:
            if r["status"] == "fail":
                # is it (entirely) explained by findings listed in known_findings.txt ?
                kfs = [k for k in ob.kf if k in known and known[k].get("property") == pid]
                explained = False
                if kfs:
                    defs = [known[k]["define"] for k in kfs if known[k].get("define")]
                    r2 = reruns[ob.name].result()
                    print("[%s] %-40s %-8s %6.1fs  (re-run with known findings excluded: %s)" %
                          (pid, ob.name, r2["status"], r2["wall_s"], ",".join(kfs)), flush=True)
                    r["excluded_rerun"] = {"status": r2["status"], "defs": defs, "wall_s": r2["wall_s"], "detail": r2["detail"]}
                    if r2["status"] == "pass":
                        explained = True
                        for k in kfs:
                            if k not in kf_reported:
                                l2 = None
                                if known[k].get("l2"):
                                    l2 = run_l2(known[k]["l2"], work)
                                kf_reported[k] = {"text": known[k]["text"], "l2": l2,
                                                  "failed": r["failed"][:6], "obligation": ob.name}
                        r["status"] = "known"
                    elif r2["status"] == "fail":
                        r["residual"] = r2
                    else:
                        r["status"] = r2["status"]
                        r["detail"] = "re-run with findings excluded: " + r2["detail"]
                if not explained and r["status"] == "fail":
                    src = r.get("residual", r)
                    defs = src["defs"][len(ob.defs):] if src is not r else []
                    gb = src.get("gb")
                    f0 = src["failed"][0]
                    tr = trace_for(ob, gb, f0["property"], f0.get("entry"))
                    rdir = os.path.join(outdir, "replay-" + ob.name)
                    os.makedirs(rdir, exist_ok=True)
                    info = {"obligation": ob.name, "failed": src["failed"], "defs": src["defs"]}
                    if tr is not None:
                        vals = inputs_from_trace(tr)
                        with open(os.path.join(rdir, "cbmc_trace.json"), "w") as f:
                            json.dump(tr, f)
                        info["inputs"] = {k: v.get("data") for k, v in vals.items()}
                        if ob.replay:
                            rp = native_replay(ob, vals, rdir, extra_defs=defs, entry=f0.get("entry"))
                            info["replay"] = rp
                    with open(os.path.join(rdir, "violation.json"), "w") as f:
                        json.dump(info, f, indent=1, default=str)
                    r["replay_dir"] = rdir
                    rp = info.get("replay")
                    if tr is None:
                        r["status"] = "error"; r["detail"] = "could not obtain counterexample trace"
                    elif ob.replay and rp and not rp.get("reproduced"):
                        r["status"] = "unconfirmed"
                        r["detail"] = "counterexample did not reproduce natively (%s)" % (
                            "build failed" if not rp.get("built") else "assumption failed" if rp.get("assume_failed") else "ran clean")
                    else:
                        r["status"] = "violation"
                        violations += 1
                        lines.append("VIOLATION property=%s replay=%s" % (pid, rdir))
            final.append((ob, r))
        for k, v in kf_reported.items():
            lines.append("KNOWN-FINDING: property=%s %s" % (pid, re.sub(r"^known:\s*property=\S+\s*", "", v["text"])))
        for ob, r in final:
            if r["status"] not in ("pass", "known", "violation"):
                infra.append("%s: %s %s" % (ob.name, r["status"], r["detail"][:300]))
        # evidence ------------------------------------------------------------
        fns = set()
        for ob, r in final[:]:
            if r.get("gb") and os.path.exists(r["gb"]):
                for fn in functions_encoded(r["gb"], "harness_0" if ob.n_entries else ob.entry):
                    fns.add(fn)
        libfns = sorted(fns)
        decided = [(ob, r) for ob, r in final if r["status"] in ("pass", "known", "violation")]
        nontrivial = [(ob, r) for ob, r in decided if r.get("witness_reached", 0) > 0 and
                      (r["props"].get("P", 0) + r["props"].get("A", 0) + r["props"].get("M", 0)) > 0]
        distinct = len(set((ob.harness, tuple(sorted(ob.defs)), json.dumps(ob.bounds, sort_keys=True)) for ob, r in nontrivial))
        cov = {
            "evaluations": len(final),
            "solver_runs": sum(int(r.get("entries") or 1) for ob, r in final),
            "scenarios_reached": sum(int(r.get("witness_reached") or 0) for ob, r in final if ob.n_entries),
            "distinct_nontrivial": distinct,
            "rule": "one evaluation = one CBMC query (harness + real /repo units + bound tuple), deciding all its assertions "
                    "for every symbolic input within the bounds; non-trivial = all reachability witnesses (W:) came back reachable "
                    "and >0 property/memory assertions were decided; distinct by (harness, defines, bounds)",
            "samples": [{"obligation": ob.name, "harness": ob.harness, "defines": ob.defs, "bounds": ob.bounds,
                         "status": r["status"], "assertions_decided": r.get("props"), "assertions_ok": r.get("props_ok"),
                         "witnesses_reached": "%s/%s" % (r.get("witness_reached"), r.get("witness_total")),
                         "failed": r.get("failed"), "note": ob.note} for ob, r in final],
            "exhaustive": False,
            "obligations": len(final),
            "discharged": sum(1 for ob, r in final if r["status"] == "pass"),
            "queries": [{"name": ob.name, "status": r["status"], "cbmc": r.get("cmd"), "wall_s": r["wall_s"],
                         "symex_s": r.get("stats", {}).get("symex_s"), "solver_s": r.get("stats", {}).get("solver_s"),
                         "program_steps": r.get("stats", {}).get("steps"), "sat_vars": r.get("stats", {}).get("vars"),
                         "sat_clauses": r.get("stats", {}).get("clauses"), "paths_or_solver_calls": r.get("stats", {}).get("paths"),
                         "entry_wall_s": r.get("entry_wall_s"),
                         "detail": r["detail"][:300]} for ob, r in final],
            "solver_s": round(sum(r.get("stats", {}).get("solver_s", 0) or 0 for ob, r in final), 2),
            "symex_s": round(sum(r.get("stats", {}).get("symex_s", 0) or 0 for ob, r in final), 2),
            "peak_rss_kb": peak_rss_kb(),
            "functions_encoded": libfns,
            "units": sorted(set(u for ob, r in final for u in ob.units)),
            "stubs": sorted(set(s for ob, r in final for s in ob.stubs)),
            "ub_notes": sorted(set(n for ob, r in final for n in r.get("ub_notes", [])))[:40],
            "known_findings_reported": [{"id": k, "line": v["text"], "l2_replay": v["l2"], "failing_assertions": v["failed"]}
                                        for k, v in kf_reported.items()],
            "fixed_findings_on_file": [f for f in fixed if ("property=%s " % pid) in f],
            "infrastructure_problems": infra,
            "engine": "cbmc 6.11.0 (goto-cc from /repo working tree, --unwinding-assertions, SAT back end)",
        }
        ev = {"property_id": pid, "tier": tier, "seed": seed, "level": "model_checking", "coverage": cov,
              "assumptions": meta.get("assumptions", []) + sorted(set(a for ob, r in final for a in ob.assumptions)),
              "wall_s": round(time.time() - t_start, 2), "violations": violations}
        os.makedirs(os.path.join(VERIF, "evidence"), exist_ok=True)
        with open(os.path.join(VERIF, "evidence", pid + ".json"), "w") as f:
            json.dump(ev, f, indent=1, default=str)
        for l in lines:
            print(l, flush=True)
        if violations:
            return 1
        if infra:
            for i in infra:
                print("INFRASTRUCTURE: property=%s %s" % (pid, i), flush=True)
            return 2
        print("OK property=%s tier=%s obligations=%d discharged=%d known_findings=%d wall=%.0fs" %
              (pid, tier, len(final), cov["discharged"], len(kf_reported), time.time() - t_start), flush=True)
        return 0
    finally:
        shutil.rmtree(work, ignore_errors=True)
