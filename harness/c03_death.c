/*
 * C03 (server side, shared-memory transport): the client of an established connection dies.
 * The scaffolding (ghost file system, ring contract stubs, real lib/ipc_setup.c + lib/ipcs.c +
 * server side of lib/ipc_shm.c) is shared with C05: see PART 3 of c05_admit.c.
 */
#define PART 3
#include "c05_admit.c"
