/*
 * C01: one writer thread || one reader thread on the real lib/ringbuffer.c,
 * CBMC's native thread encoding (partial orders, sequential consistency): every
 * interleaving at the granularity of each access to write_pt / read_pt / chunk
 * size word / magic word / payload is a solver variable.
 *
 * CBMC 6.11 thread-mode restrictions (see DESIGN 2.1) shape this file: all
 * buffers are globals, no address-taken locals, logging macros are empty,
 * __atomic_load_n/__atomic_store_n are plain accesses (their meaning under SC),
 * pointer checks are off (memory safety of the same functions: C07).
 */
#include <stdint.h>
#include <stddef.h>
#include <errno.h>
#include <string.h>
#include <sys/types.h>

#ifndef RING_W
#define RING_W 6
#endif
#ifndef NW
#define NW 2
#endif
#ifndef NR
#define NR 2
#endif
#ifndef PL
#define PL 4          /* max payload bytes (multiple of 4) */
#endif
#define RING_BYTES (4u * RING_W)

/* ---- keep lib/util_int.h's logging macros (they declare address-taken locals) out ---- */
#include "os_base.h"
#include <qb/qblog.h>
#define QB_UTIL_INT_H_DEFINED
#define qb_util_log(priority, fmt, args...) ((void)0)
#define qb_util_perror(priority, fmt, args...) ((void)0)
int32_t qb_sys_mmap_file_open(char *path, const char *file, size_t bytes, uint32_t file_flags);
int32_t qb_sys_circular_mmap(int32_t fd, void **buf, size_t bytes);
#define __atomic_load_n(p, m) (*(p))
#define __atomic_store_n(p, v, m) ((void)(*(p) = (v)))

uint32_t ring_data[RING_W];

/* circular mapping: byte o of the mapping is byte (o mod 4W); no address-taken locals */
static long ring_off(const void *p)
{
	if (__CPROVER_same_object(p, ring_data)) return (long)__CPROVER_POINTER_OFFSET(p);
	return -1;
}
static unsigned wmod(unsigned x) { if (x >= RING_W) x -= RING_W; if (x >= RING_W) x -= RING_W; return x; }
/* Payload is copied in whole 32-bit words: every shared access to ring_data then has the same size, which
 * CBMC's partial-order encoding needs (byte-wise copies of word-initialised memory made the whole formula
 * unsatisfiable for 4-byte payloads, i.e. a vacuous pass - caught by the reachability witness).  User
 * buffers are uint32_t arrays, so reading the padding of the last word stays in bounds. */
static void *verif_ring_memcpy(void *dst, const void *src, size_t n)
{
	long doff = ring_off(dst), soff = ring_off(src);
	size_t nw = (n + 3) / 4;
#ifdef ATOMIC_PAYLOAD
	__CPROVER_atomic_begin();
#endif
	for (size_t i = 0; i < nw; i++) {
		uint32_t w;
		if (soff >= 0) w = ring_data[wmod(wmod((unsigned)soff / 4) + (unsigned)i)];
		else w = ((const uint32_t *)src)[i];
		if (doff >= 0) ring_data[wmod(wmod((unsigned)doff / 4) + (unsigned)i)] = w;
		else ((uint32_t *)dst)[i] = w;
	}
#ifdef ATOMIC_PAYLOAD
	__CPROVER_atomic_end();
#endif
	return dst;
}
#define memcpy verif_ring_memcpy
#include "/repo/lib/ringbuffer.c"
#undef memcpy

struct qb_ringbuffer_shared_s ring_hdr;
struct qb_ringbuffer_s ring_rb;

unsigned char nondet_uchar(void);
uint32_t nondet_u32(void);

/* optional pre-state: PREFILL chunks already queued when the two threads start (reaches the "ring full, writer
 * reuses the space the reader is just giving back" situations with only one concurrent write and read) */
#ifndef PREFILL
#define PREFILL 0
#endif
uint32_t pbuf[PREFILL + 1][PL / 4];
uint32_t plen[PREFILL + 1];
/* writer side */
uint32_t wbuf[NW][PL / 4];
uint32_t wlen[NW];
ssize_t wres[NW];
int writer_done;
/* reader side */
uint32_t rbuf[NR + NW + PREFILL][PL / 4];
ssize_t rres[NR + NW + PREFILL];

void writer(void)
{
	for (int i = 0; i < NW; i++) {
		wres[i] = qb_rb_chunk_write(&ring_rb, wbuf[i], wlen[i]);
	}
	writer_done = 1;
}

void harness(void)
{
	for (int i = 0; i < RING_W; i++) ring_data[i] = 0;
	ring_hdr.word_size = RING_W;
	uint32_t start = nondet_u32();
	__CPROVER_assume(start < RING_W);            /* any position: wrap-around at every offset */
	ring_hdr.read_pt = start; ring_hdr.write_pt = start;
	for (int i = 0; i < PREFILL; i++) {
		plen[i] = nondet_u32();
		__CPROVER_assume(plen[i] <= PL);
		uint32_t wp = ring_hdr.write_pt;
		ring_data[wp] = plen[i];
		ring_data[wmod(wp + 1)] = QB_RB_CHUNK_MAGIC;
		for (int j = 0; j < PL / 4; j++) { pbuf[i][j] = nondet_u32(); if (4 * j < (int)plen[i]) ring_data[wmod(wp + 2 + j)] = pbuf[i][j]; }
		ring_hdr.write_pt = wmod(wp + 2 + (plen[i] + 3) / 4);
	}
	ring_rb.flags = QB_RB_FLAG_NO_SEMAPHORE;
	ring_rb.shared_hdr = &ring_hdr;
	ring_rb.shared_data = ring_data;
	for (int i = 0; i < NW; i++) {
		wlen[i] = nondet_u32();
		__CPROVER_assume(wlen[i] <= PL);
		for (int j = 0; j < PL / 4; j++) wbuf[i][j] = nondet_u32();
	}

	__CPROVER_ASYNC_1: writer();

	for (int j = 0; j < NR; j++) {
		rres[j] = qb_rb_chunk_read(&ring_rb, rbuf[j], PL, 0);
	}
	__CPROVER_assume(writer_done);               /* join */
	/* sequential drain of what is left */
	for (int j = NR; j < NR + NW + PREFILL; j++) {
		rres[j] = qb_rb_chunk_read(&ring_rb, rbuf[j], PL, 0);
	}

	/* oracle: the successful reads, in order, are exactly the pre-filled chunks followed by the successful writes */
	int k = 0;                                   /* index into the expected sequence: 0..PREFILL-1 prefill, then writes */
	for (int j = 0; j < NR + NW + PREFILL; j++) {
		if (rres[j] >= 0) {
			while (k >= PREFILL && k - PREFILL < NW && wres[k - PREFILL] < 0) k++;
			__CPROVER_assert(k < PREFILL + NW, "P:a read never returns a chunk that was not (successfully) written");
			if (k < PREFILL + NW) {
				uint32_t elen = k < PREFILL ? plen[k < PREFILL ? k : 0] : wlen[k - PREFILL];
				__CPROVER_assert(rres[j] == (ssize_t)elen, "P:read returns the length of the next written chunk (FIFO, exactly once)");
				for (int b = 0; b < PL; b++) {
					uint32_t ew = k < PREFILL ? pbuf[k < PREFILL ? k : 0][b / 4] : wbuf[k - PREFILL][b / 4];
					if (b < (int)elen) __CPROVER_assert(((rbuf[j][b / 4] ^ ew) >> (8 * (b % 4)) & 0xff) == 0, "P:read returns the bytes of the next written chunk (untorn, undamaged)");
				}
				k++;
			}
		} else {
			__CPROVER_assert(rres[j] == -ETIMEDOUT, "P:a read that finds nothing reports -ETIMEDOUT");
		}
	}
	while (k >= PREFILL && k - PREFILL < NW && wres[k - PREFILL] < 0) k++;
	__CPROVER_assert(k == PREFILL + NW, "P:every successfully written chunk was returned by some read");
	for (int i = 0; i < NW; i++)
		__CPROVER_assert(wres[i] == (ssize_t)wlen[i] || wres[i] == -EAGAIN, "P:write returns len or -EAGAIN");
	
	__CPROVER_assert(0, "W:both threads finished");
}
