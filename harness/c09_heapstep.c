/*
 * C09 (c'): one inductive step of the timer heap (include/tlist.h).
 *
 * Pre-state: a heap of a symbolic number n <= HEAPN of timers with ARBITRARY
 * expiry times, assumed to satisfy the heap property (the library's own
 * timerlist_debug_is_valid_heap) with consistent heap_pos back-pointers.
 * One real timerlist_del() of an arbitrary position, or one real timerlist_add()
 * of a timer with an arbitrary expiry.  Post: heap property, back-pointers, and
 * exactly the expected multiset of entries.  Covers add/delete histories of any
 * length for heaps of up to HEAPN entries (3 levels for HEAPN = 7).
 */
#include "verif.h"
#include "pthread_seq.h"
#include "nolog.h"
#include <errno.h>
#include <string.h>
#include <stdlib.h>
#include <qb/qbdefs.h>
#include <qb/qbutil.h>
#ifndef HEAPN
#define HEAPN 7
#endif
static uint64_t verif_now(void) { return 1; }
static uint64_t verif_hz(void) { return 1000; }
#define qb_util_nano_current_get verif_now
#define qb_util_nano_from_epoch_get verif_now
#define qb_util_nano_monotonic_hz verif_hz
#include "/repo/include/tlist.h"

struct { uint64_t e[HEAPN + 1]; } in_exp;
uint32_t in_n;
uint32_t in_pos;
uint32_t in_op;

static struct timerlist tl;
static struct timerlist_timer T[HEAPN + 1];
static struct timerlist_timer *slots[HEAPN + 2];
static timer_handle H[HEAPN + 1];
static void cb(void *d) { (void)d; }

void harness(void)
{
	IN(in_exp); IN(in_n); IN(in_pos); IN(in_op);
	ASSUME(in_n <= HEAPN);
	ASSUME(in_op <= 1);
	timerlist_init(&tl);
	tl.heap_entries = slots;
	tl.allocated = HEAPN + 2;            /* no realloc needed for one add */
	tl.size = in_n;
	for (uint32_t i = 0; i < HEAPN + 1; i++) {
		T[i].expire_time = in_exp.e[i]; T[i].timer_fn = cb; T[i].data = NULL; T[i].is_absolute_timer = 0;
		T[i].handle_addr = &H[i]; T[i].heap_pos = i;
		H[i] = &T[i];
		slots[i] = &T[i];
	}
	ASSUME(timerlist_debug_is_valid_heap(&tl));

	if (in_op == 0) {
		/* ---- delete the entry at an arbitrary position ---- */
		ASSUME(in_n >= 1 && in_pos < in_n);
		/* timerlist_del frees the timer: hand it a heap copy so the real free() is legal */
		struct timerlist_timer *victim = malloc(sizeof *victim);
		ASSUME(victim != NULL);
		*victim = T[in_pos];
		slots[in_pos] = victim; H[in_pos] = victim; victim->handle_addr = &H[in_pos];
		int32_t r = timerlist_del(&tl, victim);
		PROP(r == 0, "del succeeds");
		PROP(tl.size == in_n - 1, "heap shrinks by one");
		PROP(H[in_pos] == NULL, "handle of the deleted timer is cleared");
		PROP(timerlist_debug_is_valid_heap(&tl), "heap property holds after delete");
		for (uint32_t p = 0; p < HEAPN; p++) {
			if (p < tl.size) PROP(tl.heap_entries[p]->heap_pos == p, "heap_pos back-pointers consistent after delete");
		}
		for (uint32_t i = 0; i < HEAPN; i++) {
			if (i < in_n && i != in_pos) {
				PROP(T[i].heap_pos < tl.size && tl.heap_entries[T[i].heap_pos] == &T[i], "every other timer is still in the heap");
			}
		}
		WITNESS_BRANCH("deleted");
	} else {
		/* ---- add a timer with an arbitrary expiry ---- */
		struct timerlist_timer *nt = &T[HEAPN];
		nt->heap_pos = 0;
		int32_t r = timerlist_add(&tl, nt);
		PROP(r == 0, "add succeeds");
		PROP(tl.size == in_n + 1, "heap grows by one");
		PROP(timerlist_debug_is_valid_heap(&tl), "heap property holds after add");
		for (uint32_t p = 0; p < HEAPN + 1; p++) {
			if (p < tl.size) PROP(tl.heap_entries[p]->heap_pos == p, "heap_pos back-pointers consistent after add");
		}
		PROP(nt->heap_pos < tl.size && tl.heap_entries[nt->heap_pos] == nt, "new timer is in the heap");
		for (uint32_t i = 0; i < HEAPN; i++) {
			if (i < in_n) PROP(T[i].heap_pos < tl.size && tl.heap_entries[T[i].heap_pos] == &T[i], "every old timer is still in the heap");
		}
		WITNESS_BRANCH("added");
	}
	WITNESS("end");
}
