/*
 * C02 (server layer): requests reach msg_process exactly once and in order, an event
 * send that reports an error has no effect, notification bytes are accounted exactly.
 *
 * Real code: lib/ipcs.c (qb_ipcs_dispatch_connection_request, _process_request_,
 * _request_q_len_get, qb_ipcs_event_send / qb_ipcs_event_sendv, new_event_notification,
 * resend_event_notifications, qb_ipcs_request_rate_limit, flow control) and lib/ipc_setup.c
 * (qb_ipc_us_send, qb_ipc_us_recv, qb_ipc_us_ready, handle_new_connection).
 *
 * The transport function table is a GHOST transport with the contract of the
 * shared-memory transport (lib/ipc_shm.c over lib/ringbuffer.c, C07): FIFO rings of fixed
 * capacity, peek/reclaim, send returns the size or -EAGAIN when the ring is full; the
 * setup socket carries one notification byte per queued message (needs_sock_for_poll),
 * modelled as two byte counters with a capacity for the server->client direction.
 * The client is its contract: a request = ring entry + one byte; reading an event = one
 * byte + one ring entry.
 *
 * History = compile-time scenario over ALPHA (all histories of NOPS operations
 * generated), followed by a wind-down: flow control off, the loop dispatches readable /
 * writable events until nothing is pending, the client reads every event.
 */
#include "os_base.h"
#include "verif.h"
#include "seqenv.h"
#include "nolog.h"
#include <string.h>
#include <stdlib.h>
#include <stdio.h>
#include <stdarg.h>
#include <errno.h>
#include <unistd.h>
#include <poll.h>
#include <sys/types.h>
#include <sys/socket.h>
#include <sys/stat.h>
#include <sys/uio.h>
#include <sys/un.h>

#ifndef NOPS
#define NOPS 4
#endif
#ifndef SC_BASE
#define SC_BASE 0
#endif
#ifndef S2C_CAP
#define S2C_CAP 1              /* capacity of the server->client notification socket, in bytes */
#endif
#ifndef BACKOFF_AT
#define BACKOFF_AT 0           /* k > 0: msg_process asks for back-off (negative return) on its k-th call */
#endif
#define RQ_CAP 4
#define EV_CAP 3
#define SETUP_FD 10

/* ---- socket model ---- */
static int c2s_bytes, s2c_bytes;
static int send_fail_once;     /* next notification send fails with this errno */
static int blocked_forever;
static void client_read_one(void);
static int partial_pending;
static ssize_t verif_send(int fd, const void *buf, size_t n, int flags)
{
	(void)fd; (void)buf; (void)flags;
	if (n > 64) return (ssize_t)n;                       /* the handshake response */
	if (send_fail_once) { errno = send_fail_once; send_fail_once = 0; return -1; }
	int room = S2C_CAP - s2c_bytes;
	if (room == 0 && partial_pending) {
		/* qb_ipc_us_send spins on EAGAIN after a partial send: it makes progress when the client reads (fairness) */
		client_read_one();
		room = S2C_CAP - s2c_bytes;
	}
	if (room == 0) { errno = EAGAIN; return -1; }
	int k = (int)n < room ? (int)n : room;
	s2c_bytes += k;
	partial_pending = (k < (int)n);
	return k;
}
static ssize_t verif_recv(int fd, void *buf, size_t n, int flags)
{
	(void)fd; (void)flags;
	if (c2s_bytes == 0) { errno = EAGAIN; return -1; }
	int k = (int)n < c2s_bytes ? (int)n : c2s_bytes;
	for (int i = 0; i < 50; i++) if (i < k) ((char *)buf)[i] = 1;
	c2s_bytes -= k;
	return k;
}
static int verif_poll(struct pollfd *fds, nfds_t n, int timeout)
{
	int ready = 0;
	for (nfds_t i = 0; i < 2; i++) {
		if (i >= n) break;
		fds[i].revents = 0;
		if ((fds[i].events & POLLIN) && c2s_bytes > 0) fds[i].revents |= POLLIN;
		if ((fds[i].events & POLLOUT) && s2c_bytes < S2C_CAP) fds[i].revents |= POLLOUT;
		if (fds[i].revents) ready++;
	}
	if (ready == 0 && timeout < 0) { blocked_forever = 1; errno = EBADF; return -1; }   /* would never return: reported by the monitor */
	return ready;
}
static int verif_close(int fd) { (void)fd; return 0; }
static int verif_shutdown(int fd, int how) { (void)fd; (void)how; return 0; }
static int verif_setsockopt(int fd, int l, int n, const void *v, socklen_t len) { (void)fd; (void)l; (void)n; (void)v; (void)len; return 0; }
static char *verif_mkdtemp(char *t) { return t; }
static int verif_chmod(const char *p, mode_t m) { (void)p; (void)m; return 0; }
static int verif_chown(const char *p, uid_t u, gid_t g) { (void)p; (void)u; (void)g; return 0; }
static int verif_rmdir(const char *p) { (void)p; return 0; }
static int verif_snprintf(char *buf, size_t size, const char *fmt, ...)
{ (void)fmt; if (size > 8) { memcpy(buf, "/d/q-X", 7); return 6; } if (size) buf[0] = 0; return 6; }
static char *verif_strrchr(const char *s, int c)
{ const char *r = NULL; for (int i = 0; i < 16 && s[i]; i++) if (s[i] == (char)c) r = &s[i]; return (char *)r; }
static int verif_getsockname(int fd, struct sockaddr *a, socklen_t *l) { (void)fd; (void)a; (void)l; errno = ENOTSOCK; return -1; }
#define send verif_send
#define recv verif_recv
#define poll verif_poll
#define close verif_close
#define shutdown verif_shutdown
#define setsockopt verif_setsockopt
#define mkdtemp verif_mkdtemp
#define chmod verif_chmod
#define chown verif_chown
#define rmdir verif_rmdir
#define snprintf verif_snprintf
#define strrchr verif_strrchr
#define getsockname verif_getsockname
#include "/repo/lib/strlcpy.c"
#include "/repo/lib/ipc_setup.c"
#include "/repo/lib/ipcs.c"
#undef close
#undef snprintf
/* (send / recv / poll stay renamed: struct qb_ipcs_funcs has members of those names) */
void qb_sigpipe_ctl(enum qb_sigpipe_ctl ctl) { (void)ctl; }
void qb_socket_nosigpipe(int32_t s) { (void)s; }
int32_t qb_sys_fd_nonblock_cloexec_set(int32_t fd) { (void)fd; return 0; }
void qb_ipcs_us_init(struct qb_ipcs_service *s) { (void)s; }
void qb_ipcs_shm_init(struct qb_ipcs_service *s) { (void)s; }
int use_filesystem_sockets(void) { return 0; }

/* ---- ghost transport ---- */
struct msg { struct qb_ipc_request_header hdr; int32_t seq; };
static struct msg rq[RQ_CAP]; static int rq_head, rq_len;
static int32_t evq[EV_CAP]; static int ev_head, ev_len, ev_enq_total;
static struct qb_ipcs_connection *the_c;
static int fc_flag;
static ssize_t t_q_len(struct qb_ipc_one_way *ow) { (void)ow; return rq_len; }
static ssize_t t_peek(struct qb_ipc_one_way *ow, void **out, int32_t tmo)
{ (void)ow; (void)tmo; if (rq_len == 0) return -ETIMEDOUT; *out = &rq[rq_head]; return sizeof(struct msg); }
static void t_reclaim(struct qb_ipc_one_way *ow) { (void)ow; PROP(rq_len > 0, "reclaim of a queued request"); if (rq_len > 0) { rq_head = (rq_head + 1) % RQ_CAP; rq_len--; } }
static ssize_t t_send(struct qb_ipc_one_way *ow, const void *data, size_t size)
{
	(void)ow;
	if (ev_len == EV_CAP) return -EAGAIN;
	evq[(ev_head + ev_len) % EV_CAP] = ((const struct msg *)data)->seq; ev_len++; ev_enq_total++;
	return (ssize_t)size;
}
static ssize_t t_sendv(struct qb_ipc_one_way *ow, const struct iovec *iov, size_t n)
{ (void)n; return t_send(ow, iov[0].iov_base, iov[0].iov_len); }
static void t_fc(struct qb_ipc_one_way *ow, int32_t e) { (void)ow; fc_flag = e; }
static int32_t t_connect(struct qb_ipcs_service *s, struct qb_ipcs_connection *c, struct qb_ipc_connection_response *r) { (void)s; (void)c; (void)r; return 0; }
static void t_disconnect(struct qb_ipcs_connection *c) { (void)c; }

/* ---- main loop registration model ---- */
static int reg_events = POLLIN;
static int32_t p_dispatch_add(enum qb_loop_priority p, int32_t fd, int32_t ev, void *d, qb_ipcs_dispatch_fn_t fn) { (void)p; (void)fd; (void)d; (void)fn; reg_events = ev; return 0; }
static int32_t p_dispatch_mod(enum qb_loop_priority p, int32_t fd, int32_t ev, void *d, qb_ipcs_dispatch_fn_t fn) { (void)p; (void)fd; (void)d; (void)fn; reg_events = ev; return 0; }
static int32_t p_dispatch_del(int32_t fd) { (void)fd; return 0; }
static int32_t p_job_add(enum qb_loop_priority p, void *data, qb_loop_job_dispatch_fn fn) { (void)p; (void)data; (void)fn; return 0; }

/* ---- service callbacks / monitor ---- */
static int32_t next_req_seq = 1, next_expected_req = 1, delivered_reqs;
static int32_t next_ev_seq = 1, client_expected_ev = 1, client_got_evs, accepted_evs;
static int closed_calls, msg_calls;
static int32_t s_accept(qb_ipcs_connection_t *c, uid_t u, gid_t g) { (void)u; (void)g; the_c = c; return 0; }
static void s_created(qb_ipcs_connection_t *c) { (void)c; }
static int32_t s_msg(qb_ipcs_connection_t *c, void *d, size_t n)
{
	(void)c;
	struct msg *m = d;
	msg_calls++;
	PROP(n == sizeof(struct msg) && m->hdr.size == (int32_t)sizeof(struct msg), "the request is handed over with its length");
	PROP(m->seq == next_expected_req, "requests reach msg_process exactly once and in send order");
	next_expected_req = m->seq + 1;
	delivered_reqs++;
	if (BACKOFF_AT && msg_calls == BACKOFF_AT) return -1;
	return 0;
}
static int32_t s_closed(qb_ipcs_connection_t *c) { (void)c; closed_calls++; return 0; }
static void s_destroyed(qb_ipcs_connection_t *c) { (void)c; }

static struct qb_ipcs_service *svc;

static void check_accounting(void)
{
	PROP(closed_calls == 0, "a connection whose peer is alive and well-behaved is never torn down");
	if (closed_calls) return;
	PROP(!blocked_forever, "the server never waits for ever for a notification byte that is not coming");
	PROP(c2s_bytes == rq_len, "after every step the client->server notification bytes equal the queued requests");
	PROP(s2c_bytes + the_c->outstanding_notifiers == ev_len, "notification bytes sent + notifications still owed = events queued and unread");
	if (the_c->outstanding_notifiers > 0)
		PROP((reg_events & POLLOUT) != 0, "owed notifications are resent as soon as the socket is writable (POLLOUT registered)");
	/* => while an event is queued the client's descriptor is readable, or becomes so at the next loop iteration */
}

static void client_read_one(void)
{
	if (s2c_bytes > 0) {
		s2c_bytes--;
		PROP(ev_len > 0, "a readable client descriptor means an event is there");
		if (ev_len > 0) {
			PROP(evq[ev_head] == client_expected_ev, "events reach the client exactly once and in order");
			client_expected_ev = evq[ev_head] + 1;
			ev_head = (ev_head + 1) % EV_CAP; ev_len--; client_got_evs++;
		}
	}
}

struct opdef { uint8_t kind, arg; };
static const struct opdef ALPHA[] = {
	{0,0},   /* 0 client sends a request (refused by the full ring: no effect) */
	{1,0},   /* 1 loop: the connection is readable -> dispatch POLLIN (only if the loop would report it) */
	{2,0},   /* 2 loop: writable and POLLOUT registered -> dispatch POLLOUT */
	{3,0},   /* 3 server: qb_ipcs_event_send */
	{3,1},   /* 4 server: qb_ipcs_event_sendv */
	{4,0},   /* 5 client reads one event (only when its descriptor is readable) */
	{5,0},   /* 6 server: rate limit OFF (flow control on) */
	{5,1},   /* 7 server: rate limit NORMAL (flow control off) */
	{6,0},   /* 8 the next notification send fails with ENOBUFS */
	{3,2},   /* 9 server: qb_ipcs_event_send larger than the negotiated maximum */
};
#define NALPHA 10

static void do_op(const struct opdef *o)
{
	if (closed_calls) return;                /* connection torn down: history over (C04's subject) */
	switch (o->kind) {
	case 0:
		if (rq_len < RQ_CAP) {
			struct msg *m = &rq[(rq_head + rq_len) % RQ_CAP];
			m->hdr.id = 100; m->hdr.size = sizeof(struct msg); m->seq = next_req_seq++;
			rq_len++; c2s_bytes++;
		}
		break;
	case 1:
		if (c2s_bytes > 0 && (reg_events & POLLIN)) (void)qb_ipcs_dispatch_connection_request(SETUP_FD, POLLIN, the_c);
		break;
	case 2:
		if (s2c_bytes < S2C_CAP && (reg_events & POLLOUT))
			(void)qb_ipcs_dispatch_connection_request(SETUP_FD, POLLOUT | ((c2s_bytes > 0) ? POLLIN : 0), the_c);
		break;
	case 3: {
		struct msg m; struct iovec iov;
		memset(&m, 0, sizeof m);
		m.hdr.id = 200; m.hdr.size = sizeof m; m.seq = next_ev_seq;
		int before = ev_enq_total;      /* (the client may read while a notification send waits for room: count enqueues) */
		ssize_t r;
		if (o->arg == 1) { iov.iov_base = &m; iov.iov_len = sizeof m; r = qb_ipcs_event_sendv(the_c, &iov, 1); }
		else if (o->arg == 2) { r = qb_ipcs_event_send(the_c, &m, the_c->event.max_msg_size + 1); PROP(r == -EMSGSIZE, "an oversized event is refused with -EMSGSIZE"); }
		else r = qb_ipcs_event_send(the_c, &m, sizeof m);
		if (r == (ssize_t)sizeof m) {
			PROP(ev_enq_total == before + 1, "an accepted event is queued once");
			next_ev_seq++; accepted_evs++;
		} else {
			PROP(r < 0, "event send returns the size or a negative error");
			PROP(ev_enq_total == before, "an event send that reports an error has no effect (a retry does not duplicate)");
			if (ev_enq_total != before) { next_ev_seq++; accepted_evs++; }     /* keep the monitor consistent after the report */
		}
		break; }
	case 4: client_read_one(); break;
	case 5: qb_ipcs_request_rate_limit(svc, o->arg ? QB_IPCS_RATE_NORMAL : QB_IPCS_RATE_OFF); break;
	case 6: send_fail_once = ENOBUFS; break;
	}
	check_accounting();
}

static void harness_scenario(int s0)
{
	int ops[NOPS];
	int r = s0 + SC_BASE;
	for (int n = NOPS - 1; n >= 0; n--) { ops[n] = r % NALPHA; r /= NALPHA; }
	PROP(r == 0, "harness: scenario index within range");

	svc = calloc(1, sizeof *svc);
	ASSUME(svc != NULL);
	svc->type = QB_IPC_SHM; svc->server_sock = 3; svc->pid = 1; svc->ref_count = 1; svc->max_buffer_size = 64;
	svc->needs_sock_for_poll = QB_TRUE; svc->poll_priority = QB_LOOP_MED;
	svc->serv_fns.connection_accept = s_accept; svc->serv_fns.connection_created = s_created;
	svc->serv_fns.msg_process = s_msg; svc->serv_fns.connection_closed = s_closed; svc->serv_fns.connection_destroyed = s_destroyed;
	svc->funcs.connect = t_connect; svc->funcs.disconnect = t_disconnect;
	svc->funcs.peek = t_peek; svc->funcs.reclaim = t_reclaim; svc->funcs.send = t_send; svc->funcs.sendv = t_sendv;
	svc->funcs.q_len_get = t_q_len; svc->funcs.fc_set = t_fc;
	svc->poll_fns.dispatch_add = p_dispatch_add; svc->poll_fns.dispatch_mod = p_dispatch_mod;
	svc->poll_fns.dispatch_del = p_dispatch_del; svc->poll_fns.job_add = p_job_add;
	qb_list_init(&svc->connections);

	struct qb_ipc_connection_request req;
	struct ipc_auth_ugp ugp;
	memset(&req, 0, sizeof req);
	req.hdr.id = QB_IPC_MSG_AUTHENTICATE; req.hdr.size = sizeof req; req.max_msg_size = 64;
	ugp.pid = 42; ugp.uid = 1000; ugp.gid = 1000;
	int32_t hr = handle_new_connection(svc, 0, SETUP_FD, &req, sizeof req, &ugp);
	PROP(hr == 0 && the_c != NULL, "harness: connection established");
	if (hr != 0 || the_c == NULL) return;
	the_c->poll_events = POLLIN | POLLPRI | POLLNVAL;

	for (int n = 0; n < NOPS; n++) do_op(&ALPHA[ops[n]]);

	/* wind-down, phase A: with request flow control ON (rate limit OFF) the loop still serves POLLOUT and the client
	 * reads: events and their notifications do not depend on request flow control */
	do_op(&ALPHA[6]);
	for (int k = 0; k < EV_CAP + 2; k++) { do_op(&ALPHA[5]); do_op(&ALPHA[2]); }
	do_op(&ALPHA[5]);
	if (!closed_calls) {
		PROP(client_got_evs == accepted_evs && ev_len == 0 && the_c->outstanding_notifiers == 0,
		     "every accepted event reaches a polling client while request flow control is on");
	}
	/* phase B: flow control off, then loop + client run until nothing is pending */
	do_op(&ALPHA[7]);
	for (int k = 0; k < RQ_CAP + EV_CAP + 2; k++) { do_op(&ALPHA[1]); do_op(&ALPHA[2]); do_op(&ALPHA[5]); }
	if (!closed_calls) {
		PROP(delivered_reqs == next_req_seq - 1, "every request the client's send accepted was handed to msg_process");
		PROP(client_got_evs == accepted_evs, "every event the server's send accepted was received by the client");
		PROP(rq_len == 0 && ev_len == 0 && c2s_bytes == 0 && s2c_bytes == 0 && the_c->outstanding_notifiers == 0, "nothing is left queued or owed");
	}
	WITNESS("scenario executed");
}
