/*
 * C10: weak priorities of the event loop -- no level is starved.
 *
 * Real code: lib/loop.c qb_loop_run, qb_loop_run_level, qb_loop_level_item_add;
 * lib/loop_job.c qb_loop_job_add, get_more_jobs, job_dispatch.
 *
 * Scenario s (compile-time constant per CBMC run, ALL 6^3 generated): for each of
 * the three priority levels an initial backlog in {0, 1, 5} jobs (5 > to_process)
 * and whether every job of that level re-adds itself when it runs (a level that
 * re-adds is saturated for ever: the worst case for the levels below it).
 * The real qb_loop_run runs 7 iterations (the fd source stub counts iterations
 * and stops the loop), i.e. every phase of the 3-periodic p_stop cycle starts
 * a window twice.  Job list shapes are concrete per scenario (symbolic lengths
 * stall symex, measured); the oracle is evaluated on the recorded dispatch trace.
 */
#include "verif.h"
#include "seqenv.h"
#include "nolog.h"
#include <stdlib.h>
#include <errno.h>
#include "/repo/lib/loop.c"
#include "/repo/lib/loop_job.c"

#ifdef FAMILY_B
#define ITERS 10
#else
#define ITERS 7
#endif
#define MAXDISP 64

static struct qb_loop L;
static struct qb_loop_source fdsrc;
static struct qb_loop_source jobwrap;
static struct qb_loop_source *realjobs;
static int iter;                        /* current iteration, 0-based */
static int pending_at_start[ITERS][3];
static int disp_count[ITERS][3];
static int readd[3];
static int next_id[3];
static int last_id_run[3];
static int fifo_ok = 1;

static int level_pending(int p)
{
	return !qb_list_empty(&L.level[p].job_head) || !qb_list_empty(&L.level[p].wait_head);
}
static int32_t job_poll_wrap(struct qb_loop_source *s, int32_t ms)
{
	(void)s;
	if (iter < ITERS) for (int p = 0; p < 3; p++) pending_at_start[iter][p] = level_pending(p);
	return realjobs->poll(realjobs, ms);          /* the real get_more_jobs */
}
/* "always-ready descriptors": 5 items per level that the fd source re-queues every iteration (family B) */
#define NFD 5
static struct qb_loop_item fditem[3][NFD];
static int fd_queued[3][NFD];
static int fds_ready[3];
static int inject_level = -1, inject_iter = 1, injected_ran_iter = -1, injected;
static void job_cb(void *data);
/* ONE dispatch function for every item: with two address-taken candidates CBMC case-splits each indirect call
 * (measured: symbolic execution then does not finish); jobs are handed to the real job_dispatch by a direct call */
static void fd_dispatch(struct qb_loop_item *item, enum qb_loop_priority p)
{
	int mine = 0;
	for (int i = 0; i < NFD; i++) if (item == &fditem[p][i]) { fd_queued[p][i] = 0; mine = 1; }
	if (mine) { if (iter < ITERS) disp_count[iter][p]++; }
	else job_dispatch(item, p);
}
static void injected_cb(void *data) { (void)data; injected_ran_iter = iter; }
static int fd_polls;
static int32_t fd_poll(struct qb_loop_source *s, int32_t ms)
{
	(void)ms;
	int n = 0;
	/* the fd source is polled exactly once per loop iteration, after the job and timer sources: iterations are
	 * counted here and "pending work" is sampled here, just before the levels are served */
	if (fd_polls > 0) iter++;
	fd_polls++;
	if (iter >= ITERS) { qb_loop_stop(&L); return 0; }
	for (int p = 0; p < 3; p++) pending_at_start[iter][p] = level_pending(p);
	for (int p = 0; p < 3; p++) {
		if (!fds_ready[p]) continue;
		for (int i = 0; i < NFD; i++) {
			if (!fd_queued[p][i]) {
				fditem[p][i].source = s;
				fditem[p][i].type = QB_LOOP_FD;
				qb_loop_level_item_add(&L.level[p], &fditem[p][i]);
				fd_queued[p][i] = 1;
				n++;
			}
		}
	}
	if (inject_level >= 0 && !injected && iter == inject_iter) {
		/* a job queued from outside while the loop is running */
		PROP(qb_loop_job_add(&L, (enum qb_loop_priority)inject_level, NULL, injected_cb) == 0, "job_add while running");
		injected = 1;
	}
	return n;
}
static void job_cb(void *data);
static void add_job(int p)
{
	intptr_t tag = ((intptr_t)p << 16) | next_id[p]++;
	int32_t r = qb_loop_job_add(&L, (enum qb_loop_priority)p, (void *)tag, job_cb);
	PROP(r == 0, "job_add succeeds");
}
static void job_cb(void *data)
{
	intptr_t tag = (intptr_t)data;
	int p = (int)(tag >> 16), id = (int)(tag & 0xffff);
	if (iter < ITERS) disp_count[iter][p]++;
	if (id <= last_id_run[p]) fifo_ok = 0;
	last_id_run[p] = id;
	if (readd[p]) add_job(p);
}
/* end of an iteration = the next call of the job source's poll; count there */
static int32_t job_poll_count(struct qb_loop_source *s, int32_t ms)
{
	(void)s;
	return realjobs->poll(realjobs, ms);          /* the real get_more_jobs */
}

#ifndef SC_BASE
#define SC_BASE 0
#endif
#ifdef FAMILY_B
/* family B: s = fdmask (3 bits: which levels have 5 always-ready descriptors) * 3 + level of the injected job */
static void harness_scenario(int s)
{
	PROP(s < 24, "harness: scenario index in range");
	for (int p = 0; p < 3; p++) {
		L.level[p].priority = p; L.level[p].to_process = 4; L.level[p].todo = 0; L.level[p].l = &L;
		qb_list_init(&L.level[p].job_head); qb_list_init(&L.level[p].wait_head);
		fds_ready[p] = ((s / 3) >> p) & 1;
	}
	inject_level = s % 3;
	/* job source built by hand (what qb_loop_jobs_create does) so that job_dispatch's address is never taken */
	static struct qb_loop_source handjobs;
	handjobs.l = &L; handjobs.poll = get_more_jobs; handjobs.dispatch_and_take_back = fd_dispatch;
	realjobs = &handjobs;
	jobwrap.l = &L; jobwrap.poll = job_poll_count; jobwrap.dispatch_and_take_back = fd_dispatch;
	fdsrc.l = &L; fdsrc.poll = fd_poll; fdsrc.dispatch_and_take_back = fd_dispatch;
	L.fd_source = &fdsrc;
	L.job_source = &jobwrap;
	L.timer_source = NULL; L.signal_source = NULL;
	qb_loop_run(&L);
	PROP(iter == ITERS, "loop ran the planned number of iterations and stopped on request");
	PROP(injected, "the job was queued");
	/* queued during iteration 1; behind at most 5 ready descriptors of its own level (to_process 4 => 2 turns of
	 * that level, a level gets a turn at least every 3rd iteration) => dispatched by iteration 1 + 1 + 6 */
	PROP(injected_ran_iter >= 0 && injected_ran_iter <= inject_iter + 7, "a queued job is dispatched within a bounded number of iterations whatever the other levels do");
	for (int k = 0; k < ITERS; k++) for (int p = 0; p < 3; p++) PROP(disp_count[k][p] <= 4, "at most to_process items of a level per iteration");
	WITNESS("scenario executed");
}
#else
static void harness_scenario(int s0)
{
	int s = s0 + SC_BASE;
	static const int CNT[3] = { 0, 1, 5 };
	int d[3] = { s % 6, (s / 6) % 6, (s / 36) % 6 };
	PROP(s < 216, "harness: scenario index in range");
	for (int p = 0; p < 3; p++) {
		L.level[p].priority = p; L.level[p].to_process = 4; L.level[p].todo = 0; L.level[p].l = &L;
		qb_list_init(&L.level[p].job_head); qb_list_init(&L.level[p].wait_head);
		last_id_run[p] = -1;
	}
	realjobs = qb_loop_jobs_create(&L);
	PROP(realjobs != NULL, "jobs source");
	jobwrap.l = &L; jobwrap.poll = job_poll_count; jobwrap.dispatch_and_take_back = realjobs->dispatch_and_take_back;
	L.job_source = realjobs;               /* items point at the real source (its dispatch function) */
	fdsrc.l = &L; fdsrc.poll = fd_poll;
	L.fd_source = &fdsrc;
	for (int p = 0; p < 3; p++) {
		readd[p] = d[p] / 3;
		for (int i = 0; i < CNT[d[p] % 3]; i++) add_job(p);
	}
	L.job_source = &jobwrap;               /* the loop polls through the counting wrapper */
	L.timer_source = NULL;
	L.signal_source = NULL;

	qb_loop_run(&L);

	PROP(iter == ITERS, "loop ran the planned number of iterations and stopped on request");
	PROP(fifo_ok, "jobs of one priority run in the order they were added");
	for (int k = 0; k < ITERS; k++)
		for (int p = 0; p < 3; p++)
			PROP(disp_count[k][p] <= 4, "at most to_process items of a level per iteration");
	for (int k = 0; k + 3 <= ITERS; k++) {
		int c[3], opp[3];
		for (int p = 0; p < 3; p++) {
			c[p] = disp_count[k][p] + disp_count[k + 1][p] + disp_count[k + 2][p];
			/* dispatch opportunities: iterations of the window in which the level was served */
			opp[p] = (disp_count[k][p] > 0) + (disp_count[k + 1][p] > 0) + (disp_count[k + 2][p] > 0);
			if (pending_at_start[k][p])
				PROP(c[p] >= 1, "a level with pending work dispatches at least one item in any three consecutive iterations");
		}
		/* all three saturated for the whole window: opportunities HIGH >= MED >= LOW */
		if (readd[0] && readd[1] && readd[2] && pending_at_start[k][0] && pending_at_start[k][1] && pending_at_start[k][2]) {
			PROP(opp[QB_LOOP_HIGH] >= opp[QB_LOOP_MED] && opp[QB_LOOP_MED] >= opp[QB_LOOP_LOW],
			     "higher priorities get at least as many dispatch opportunities as lower ones over the same span");
		}
	}
	/* a non-re-adding backlog drains completely */
	for (int p = 0; p < 3; p++) {
		if (!readd[p]) {
			int total = 0;
			for (int k = 0; k < ITERS; k++) total += disp_count[k][p];
			PROP(total == CNT[d[p] % 3], "every queued job runs exactly once");
		}
	}
	WITNESS("scenario executed");
}
#endif
