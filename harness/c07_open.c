/*
 * C07 (c): the size arithmetic of qb_rb_open for REAL sizes and page sizes.
 * The real qb_rb_open_2 runs over mmap/file stubs with a SYMBOLIC requested size S
 * in [1, SMAX] and page size PAGE; then, on the fresh ring, the real qb_rb_chunk_alloc
 * must accept a chunk of S bytes (and of any symbolic length <= S): "a ring buffer
 * created for size S accepts any single chunk of up to S bytes when it is empty".
 */
#include "verif.h"
#include "seqenv.h"
#include "nolog.h"
#include <string.h>
#include <stdlib.h>
#include <stdio.h>
#include <errno.h>
#include <unistd.h>
#include <sys/mman.h>
#ifndef PAGE
#define PAGE 4096
#endif
#ifndef SMAX
#define SMAX 20000
#endif
#define WORDS_MAX ((SMAX + 16 + PAGE) / 4 + 4)

uint32_t in_size;
uint32_t in_len;

static uint32_t big[2 * WORDS_MAX];              /* the double mapping */
struct qb_ringbuffer_shared_s;
static struct qb_ringbuffer_shared_s *the_hdr;
struct qb_ringbuffer_s;
int32_t qb_sys_mmap_file_open(char *path, const char *file, size_t bytes, uint32_t file_flags)
{ (void)bytes; (void)file_flags; (void)file; path[0] = 'f'; path[1] = 0; return 9; }
static size_t mapped_bytes;
int32_t qb_sys_circular_mmap(int32_t fd, void **buf, size_t bytes)
{ (void)fd; mapped_bytes = bytes; PROP(bytes <= 4u * WORDS_MAX, "env: ring fits the model mapping"); *buf = big; return 0; }
int32_t qb_rb_sem_create(struct qb_ringbuffer_s *rb, uint32_t flags) { (void)rb; (void)flags; return 0; }
int32_t qb_rb_close_helper(struct qb_ringbuffer_s *rb, int32_t u, int32_t t) { (void)rb; (void)u; (void)t; return 0; }
static void *verif_mmap(void *a, size_t len, int prot, int flags, int fd, off_t off);
static int verif_munmap(void *a, size_t l) { (void)a; (void)l; return 0; }
static int verif_close(int fd) { (void)fd; return 0; }
static int verif_unlink(const char *p) { (void)p; return 0; }
static long verif_sysconf(int n) { (void)n; return PAGE; }
static int verif_snprintf(char *b, size_t n, const char *f, ...) { (void)f; if (n > 1) { b[0] = 'n'; b[1] = 0; } return 1; }
static void *verif_memset(void *p, int c, size_t n) { (void)c; (void)n; return p; }   /* the data area is already zero (static) */
#define mmap verif_mmap
#define munmap verif_munmap
#define close verif_close
#define unlink verif_unlink
#define sysconf verif_sysconf
#define snprintf verif_snprintf
#define memset verif_memset
#include "/repo/lib/strlcpy.c"
#include "/repo/lib/ringbuffer.c"
#undef memset
#undef close
static void *verif_mmap(void *a, size_t len, int prot, int flags, int fd, off_t off)
{ (void)a; (void)len; (void)prot; (void)flags; (void)fd; (void)off; the_hdr = calloc(1, sizeof(struct qb_ringbuffer_shared_s)); ASSUME(the_hdr != NULL); return the_hdr; }

void harness(void)
{
	IN(in_size); IN(in_len);
	ASSUME(in_size >= 1 && in_size <= SMAX);
	ASSUME(in_len <= in_size);
	qb_ringbuffer_t *rb = qb_rb_open_2("r", in_size, QB_RB_FLAG_CREATE | QB_RB_FLAG_NO_SEMAPHORE, 0, NULL);
	PROP(rb != NULL, "open succeeds");
	if (rb == NULL) return;
	PROP(mapped_bytes == 4u * rb->shared_hdr->word_size, "mapping size equals word_size words");
	PROP(mapped_bytes % PAGE == 0, "ring size is a whole number of pages");
	void *p = qb_rb_chunk_alloc(rb, in_size);
	PROP(p != NULL, "an empty ring created for size S accepts a chunk of S bytes");
	void *q = qb_rb_chunk_alloc(rb, in_len);
	PROP(q != NULL, "an empty ring created for size S accepts any chunk of up to S bytes");
	PROP(qb_rb_space_free(rb) == (ssize_t)mapped_bytes, "a fresh ring reports all its space free");
	WITNESS("end");
}
