/*
 * C15 (a): qb_log_blackbox_print_from_file on an ARBITRARY file.
 *
 * The file is a symbolic byte array of symbolic length <= FILE_MAX served by
 * open/read/lseek/close stubs.  The ring header word 'word_size' is assumed to be
 * RING_W (a model ring of RING_W words with page size 16, so that qb_rb_open runs
 * for real over the mmap stubs without a symbolic allocation size) and the stored
 * hash is assumed to match - everything else (old/new dump header, read_pt,
 * write_pt, version, every data word, i.e. chunk size words, markers and record
 * fields) is arbitrary.  Chunk size words above 4*RING_W are assumed away: the
 * reader's 1024-byte chunk buffer is smaller than any real ring (>= 4096 bytes), the
 * model ring is not (stated as outside the claim).
 *
 * Checked: the call returns (all loops bounded under unwinding assertions), no
 * access outside the ring data, the chunk buffer, the message buffer or the header
 * struct (CBMC pointer checks on the real code), descriptor closed, temporary ring
 * files removed.
 *
 * Real code: lib/log_blackbox.c qb_log_blackbox_print_from_file; lib/ringbuffer.c
 * qb_rb_create_from_file, qb_rb_open_2, qb_rb_chunk_read, _rb_chunk_reclaim, qb_rb_close;
 * lib/log_format.c qb_vsnprintf_deserialize.
 */
#include "verif.h"
#include "seqenv.h"
#include <string.h>
#include <stdlib.h>
#include <stdio.h>
#include <stdarg.h>
#include <errno.h>
#include <time.h>
#include <unistd.h>
#include <fcntl.h>
#include <sys/mman.h>
#include <sys/stat.h>

#ifndef RING_W
#define RING_W 12
#endif
#define RING_K 1
#define RING_L 4
#define FILE_MAX (20 + 20 + 4 * RING_W)

struct { unsigned char b[FILE_MAX]; } in_file;
uint32_t in_flen;
struct { uint8_t n[3]; } in_sn;

/* ---- file stubs ---- */
static size_t fpos;
static int fd_open, fd_closed;
static int verif_open(const char *path, int flags, ...) { (void)path; (void)flags; fd_open++; fpos = 0; return 7; }
static ssize_t verif_read(int fd, void *buf, size_t n)
{
	(void)fd;
	size_t avail = in_flen > fpos ? in_flen - fpos : 0;
	size_t k = n < avail ? n : avail;
	for (size_t i = 0; i < FILE_MAX; i++) if (i < k) ((unsigned char *)buf)[i] = in_file.b[fpos + i];
	fpos += k;
	return (ssize_t)k;
}
static off_t verif_lseek(int fd, off_t off, int whence) { (void)fd; if (whence == SEEK_SET) fpos = (size_t)off; return (off_t)fpos; }
static int verif_close(int fd) { if (fd == 7) fd_closed++; return 0; }
static int verif_fstat(int fd, struct stat *st) { (void)fd; memset(st, 0, sizeof *st); st->st_size = (off_t)in_flen; return 0; }

/* ---- mmap / shm file stubs (DESIGN section 3) ---- */
static int files_created, files_unlinked;
int32_t qb_sys_mmap_file_open(char *path, const char *file, size_t bytes, uint32_t file_flags)
{ (void)bytes; (void)file_flags; path[0] = 'f'; path[1] = file[0]; path[2] = 0; files_created++; return 9; }
static struct qb_ringbuffer_shared_s *the_hdr;
#define PROT_STUB 0
static void *verif_mmap(void *a, size_t len, int prot, int flags, int fd, off_t off);
static int verif_munmap(void *a, size_t len) { (void)a; (void)len; return 0; }
static int verif_unlink(const char *p) { (void)p; files_unlinked++; return 0; }
static long verif_sysconf(int name) { (void)name; return 16; }

/* ---- text output ---- */
static int verif_printf(const char *fmt, ...) { (void)fmt; return 0; }
static void verif_perror(const char *s) { (void)s; }
static struct tm the_tm;
static struct tm *verif_localtime(const time_t *t) { (void)t; return &the_tm; }
static size_t verif_strftime(char *s, size_t max, const char *fmt, const struct tm *tm)
{ (void)fmt; (void)tm; if (max > 3) { s[0] = 'T'; s[1] = 'S'; s[2] = 0; return 2; } return 0; }
static int sn_calls;
static int verif_snprintf(char *buf, size_t size, const char *fmt, ...)
{
	(void)fmt;
	unsigned want = in_sn.n[sn_calls < 3 ? sn_calls : 2] % 20;
	sn_calls++;
	if (size > 0) {
		size_t w = want < size - 1 ? want : size - 1;
		for (size_t i = 0; i < 20; i++) if (i < w) buf[i] = 'x';
		buf[w] = 0;
	}
	return (int)want;
}
static char *verif_strchrnul(const char *s, int c) { while (*s && *s != (char)c) s++; return (char *)s; }

#define open verif_open
#define read verif_read
#define lseek verif_lseek
#define fstat verif_fstat
#define close verif_close
#define mmap verif_mmap
#define munmap verif_munmap
#define unlink verif_unlink
#define sysconf verif_sysconf
#define printf verif_printf
#define perror verif_perror
#define localtime verif_localtime
#define strftime verif_strftime
#define snprintf verif_snprintf
#define strchrnul verif_strchrnul
#define pthread_rwlock_init(a, b) 0
#define pthread_rwlock_destroy(a) 0
#define pthread_rwlock_rdlock(a) 0
#define pthread_rwlock_wrlock(a) 0
#define pthread_rwlock_unlock(a) 0
#include "nolog.h"
#define RING_EXTRA_WORD 1     /* qb_rb_open writes shared_data[word_size] (= word 0 through the second mapping) */
#include "/repo/lib/strlcpy.c"
#include "ring_common.h"            /* brings the real lib/ringbuffer.c with the circular-copy model, ring_data[RING_W] */
#include "log_int.h"
static struct qb_log_target the_target;
struct qb_log_target *qb_log_target_get(int32_t pos) { (void)pos; return &the_target; }
/* qb_vsnprintf_deserialize is C14's subject; here it is its CONTRACT: the text is terminated inside str_len and the
 * return value is the terminated length + 1, i.e. anything in [1, str_len] (my_strlcat(..) + 1 reaches str_len when
 * the text is cut at str_len - 1 characters).  With the real decoder on arbitrary bytes the query ran > 10 min. */
uint32_t in_dlen;
size_t qb_vsnprintf_deserialize(char *string, size_t str_len, const char *buf)
{
	(void)buf;
	size_t n = in_dlen;
	ASSUME(n >= 1 && n <= str_len);
	/* text without NUL/newline, so that the caller's trailing-newline trimming loop stops at once (it is a plain
	 * data loop of up to 512 steps otherwise) */
	for (size_t i = 0; i < 512; i++) if (i < str_len) string[i] = 'x';
	string[n - 1] = 0;
	return n;
}
size_t qb_vsnprintf_serialize(char *serialize, size_t max_len, const char *fmt, va_list ap)
{ (void)serialize; (void)fmt; (void)ap; return max_len; }
const char *qb_log_priority2str(uint8_t priority) { (void)priority; return "info"; }
#include "/repo/lib/log_blackbox.c"
#undef open
#undef read
#undef close
#undef snprintf
#undef printf

static void *verif_mmap(void *a, size_t len, int prot, int flags, int fd, off_t off)
{
	(void)a; (void)len; (void)prot; (void)flags; (void)fd; (void)off;
	the_hdr = calloc(1, sizeof(struct qb_ringbuffer_shared_s));
	ASSUME(the_hdr != NULL);
	return the_hdr;
}
int32_t qb_sys_circular_mmap(int32_t fd, void **buf, size_t bytes)
{
	(void)fd;
	PROP(bytes == 4u * RING_W, "env: ring size equals the model ring");
	*buf = ring_data;
	return 0;
}
int32_t qb_rb_sem_create(struct qb_ringbuffer_s *rb, uint32_t flags) { (void)rb; (void)flags; return 0; }
static int closed_rings;
int32_t qb_rb_close_helper(struct qb_ringbuffer_s *rb, int32_t unlink_it, int32_t truncate_fallback)
{
	(void)truncate_fallback;
	if (unlink_it) files_unlinked += 2;
	closed_rings++;
	free(rb->shared_hdr);
	free(rb);
	return 0;
}

void harness(void)
{
	IN(in_file); IN(in_flen); IN(in_sn); IN(in_dlen);
	ASSUME(in_flen <= FILE_MAX);
	/* locate the ring header: after the 20-byte new-format header if present, else at 0 */
	/* word_size (first word of the ring header) == RING_W and hash consistent, in either position */
	uint32_t w0[5], w1[5];
	for (int i = 0; i < 5; i++) { memcpy(&w0[i], &in_file.b[4 * i], 4); memcpy(&w1[i], &in_file.b[20 + 4 * i], 4); }
	int newfmt = (w0[0] == 0 && w0[1] == 0xCCBBCCBB && w0[2] == 0xBBCCBBCC && w0[3] == 2 && w0[4] == 0);
	uint32_t *h = newfmt ? w1 : w0;
	ASSUME(h[0] == RING_W);                          /* bound: the model ring */
	size_t doff = (newfmt ? 40 : 20);
	/* bound: chunk size words no larger than the model ring (see header comment) */
	for (int i = 0; i < RING_W; i++) {
		uint32_t wv;
		memcpy(&wv, &in_file.b[doff + 4 * i], 4);
		ASSUME(wv <= 4u * RING_W || wv > 1024);   /* sizes in (4W, 1024] excluded: see header comment */
	}

	int r = qb_log_blackbox_print_from_file("dump");
	(void)r;
	PROP(fd_closed == fd_open, "the dump file descriptor is closed");
	PROP(files_created == 0 || files_unlinked >= files_created, "temporary shared-memory files are removed");
	WITNESS("print_from_file returned");
}
