/*
 * C06 (b): a request datagram from an ACCEPTED client on the socket transport.
 *
 * One datagram of symbolic true length D (0..DMAX) and arbitrary contents (so
 * the header's size field is arbitrary: smaller, larger, zero, negative) is
 * delivered by the recv() stub; the real qb_ipc_us_recv_at_most() receives it
 * into the connection's receive buffer of exactly MAXMSG bytes (heap object, so
 * one byte too many is a bounds violation in the stub's copy loop) and the real
 * _process_request_() hands it to msg_process.
 *
 * Real code: lib/ipc_socket.c qb_ipc_us_recv_at_most; lib/ipcs.c _process_request_.
 */
#include "verif.h"
#include "seqenv.h"
#include "nolog.h"
#include <string.h>
#include <stdlib.h>
#include <errno.h>
#include <sys/types.h>
#include <sys/socket.h>
#include <poll.h>

#ifndef MAXMSG
#define MAXMSG 32
#endif
#ifndef DMAX
#define DMAX 48
#endif

struct { unsigned char b[DMAX]; } in_dgram;
uint32_t in_dlen;
uint32_t in_have;          /* is a datagram queued at all? */

static int consumed;
static ssize_t last_full_recv = -1;
static ssize_t verif_recv(int fd, void *buf, size_t n, int flags)
{
	(void)fd;
	if (!in_have || consumed) { errno = EAGAIN; return -1; }
	size_t k = n < (size_t)in_dlen ? n : (size_t)in_dlen;
	/* the kernel copies min(n, datagram length) bytes into the caller's buffer */
	for (size_t i = 0; i < DMAX; i++) if (i < k) ((unsigned char *)buf)[i] = in_dgram.b[i];
	if (!(flags & MSG_PEEK)) { consumed = 1; last_full_recv = (ssize_t)k; }
	return (ssize_t)k;
}
#define recv verif_recv
#include "/repo/lib/ipc_socket.c"
/* NB: the macro also renames the struct member funcs.recv consistently in both units */
void qb_sigpipe_ctl(enum qb_sigpipe_ctl ctl) { (void)ctl; }
int32_t qb_ipc_us_ready(struct qb_ipc_one_way *a, struct qb_ipc_one_way *b, int32_t ms, int32_t ev)
{ (void)a; (void)b; (void)ms; (void)ev; return -EAGAIN; }
#include "/repo/lib/ipcs.c"

static int mp_calls;
static size_t mp_size;
static void *mp_data;
static int32_t msg_process(qb_ipcs_connection_t *c, void *data, size_t size)
{
	(void)c;
	mp_calls++; mp_size = size; mp_data = data;
	return 0;
}

void harness(void)
{
	IN(in_dgram); IN(in_dlen); IN(in_have);
	ASSUME(in_dlen <= DMAX);
	ASSUME(in_have <= 1);

	static struct qb_ipcs_service svc;
	struct qb_ipcs_connection *c = calloc(1, sizeof *c);
	ASSUME(c != NULL);
	svc.funcs.recv = qb_ipc_us_recv_at_most;
	svc.serv_fns.msg_process = msg_process;
	c->service = &svc;
	c->request.max_msg_size = MAXMSG;
	c->request.type = QB_IPC_SOCKET;
	c->request.u.us.sock = 5;
	c->receive_buf = calloc(1, MAXMSG);
	ASSUME(c->receive_buf != NULL);

	int32_t res = _process_request_(c, 0);

	if (mp_calls) {
		WITNESS_BRANCH("message delivered");
		PROP(mp_calls == 1, "at most one delivery per datagram");
		PROP(last_full_recv >= 0, "delivery only after a datagram was received");
		PROP(mp_size <= (size_t)last_full_recv, "length reported to msg_process never exceeds what was actually received");
		PROP(mp_size <= MAXMSG, "length reported to msg_process never exceeds the negotiated maximum");
		PROP(mp_data == (void *)c->receive_buf, "msg_process gets the connection's own buffer");
	} else {
		WITNESS_BRANCH("message refused");
		PROP(res <= 0, "no delivery => error / disconnect result");
	}
	WITNESS("end");
}
