/*
 * C04: server-side connection life cycle -- callback order, exactly-once destroy,
 * no use of freed connection/service state.
 *
 * Real code: lib/ipcs.c (whole unit) and handle_new_connection of lib/ipc_setup.c; the
 * transport functions, poll handlers and kernel calls are recording stubs.
 * History = compile-time scenario over ALPHA (all histories of length NOPS generated,
 * first operation = a new accepted connection); callback behaviour is an obligation
 * constant: CLOSED_RETRY (connection_closed returns non-zero the first time),
 * CREATED_DISC (connection_created disconnects the connection; 2: after taking a reference of its own), MSG_DISC (msg_process
 * disconnects), DESTROYED_ITER (connection_destroyed walks the connection list).  CBMC's pointer checks decide use-after-free / double free on the real
 * free(c) / free(s); the monitor decides the callback order.
 */
#include "os_base.h"
#include "verif.h"
#include "seqenv.h"
#include "nolog.h"
#include <string.h>
#include <stdlib.h>
#include <stdio.h>
#include <stdarg.h>
#include <errno.h>
#include <unistd.h>
#include <poll.h>
#include <sys/types.h>
#include <sys/socket.h>
#include <sys/stat.h>
#include <sys/un.h>

#ifndef NOPS
#define NOPS 4
#endif
#ifndef CLOSED_RETRY
#define CLOSED_RETRY 0
#endif
#ifndef CREATED_DISC
#define CREATED_DISC 0
#endif
#ifndef MSG_DISC
#define MSG_DISC 0
#endif
#ifndef SC_BASE
#define SC_BASE 0
#endif

static ssize_t verif_send(int fd, const void *buf, size_t n, int flags) { (void)fd; (void)buf; (void)flags; return (ssize_t)n; }
static int verif_close(int fd) { (void)fd; return 0; }
static int verif_shutdown(int fd, int how) { (void)fd; (void)how; return 0; }
static int verif_setsockopt(int fd, int l, int n, const void *v, socklen_t len) { (void)fd; (void)l; (void)n; (void)v; (void)len; return 0; }
static char *verif_mkdtemp(char *t) { return t; }
static int verif_chmod(const char *p, mode_t m) { (void)p; (void)m; return 0; }
static int verif_chown(const char *p, uid_t u, gid_t g) { (void)p; (void)u; (void)g; return 0; }
static int verif_rmdir(const char *p) { (void)p; return 0; }
static int verif_snprintf(char *buf, size_t size, const char *fmt, ...)
{ (void)fmt; if (size > 8) { memcpy(buf, "/d/q-X", 7); return 6; } if (size) buf[0] = 0; return 6; }
static char *verif_strrchr(const char *s, int c)
{ const char *r = NULL; for (int i = 0; i < 16 && s[i]; i++) if (s[i] == (char)c) r = &s[i]; return (char *)r; }
#define send verif_send
#define close verif_close
#define shutdown verif_shutdown
#define setsockopt verif_setsockopt
#define mkdtemp verif_mkdtemp
#define chmod verif_chmod
#define chown verif_chown
#define rmdir verif_rmdir
#define snprintf verif_snprintf
#define strrchr verif_strrchr
static int verif_getsockname(int fd, struct sockaddr *a, socklen_t *l);
#define getsockname verif_getsockname
#include "/repo/lib/strlcpy.c"
#include "/repo/lib/ipc_setup.c"
#include "/repo/lib/ipcs.c"
#undef close
#undef snprintf
void qb_sigpipe_ctl(enum qb_sigpipe_ctl ctl) { (void)ctl; }
void qb_socket_nosigpipe(int32_t s) { (void)s; }
int32_t qb_sys_fd_nonblock_cloexec_set(int32_t fd) { (void)fd; return 0; }
void qb_ipcs_us_init(struct qb_ipcs_service *s) { (void)s; }
void qb_ipcs_shm_init(struct qb_ipcs_service *s) { (void)s; }
int use_filesystem_sockets(void) { return 0; }
static int verif_getsockname(int fd, struct sockaddr *a, socklen_t *l) { (void)fd; (void)a; (void)l; errno = ENOTSOCK; return -1; }

/* ---- monitor ---- */
#define MAXC 2
static struct qb_ipcs_connection *conn[MAXC];
static int nconn;
static int st_accept[MAXC], st_created[MAXC], st_closed[MAXC], st_closed_done[MAXC], st_destroyed[MAXC], st_msgs[MAXC];
static int app_refs[MAXC];
static int svc_destroyed;
static int id_of(struct qb_ipcs_connection *c) { for (int i = 0; i < MAXC; i++) if (conn[i] == c) return i; return -1; }
static int accept_verdict;
#ifndef DESTROYED_ITER
#define DESTROYED_ITER 0
#endif
static struct qb_ipcs_service *svc;
/* walk the connection list the documented way (first_get / next_get, dropping the reference each call hands out) */
static void iterate_list(void)
{
	if (svc_destroyed) return;
	struct qb_ipcs_connection *c = qb_ipcs_connection_first_get(svc);
	for (int n = 0; n < MAXC + 1 && c; n++) {
		int i = id_of(c);
		PROP(i >= 0 && !st_destroyed[i], "list iteration only returns connections whose destroyed callback has not run");
		struct qb_ipcs_connection *nx = qb_ipcs_connection_next_get(svc, c);
		qb_ipcs_connection_unref(c);
		c = nx;
	}
}

static int32_t s_accept(qb_ipcs_connection_t *c, uid_t u, gid_t g)
{
	(void)u; (void)g;
	PROP(nconn < MAXC, "harness: connection table large enough");
	conn[nconn] = c; st_accept[nconn] = 1; nconn++;
	return accept_verdict;
}
static void s_created(qb_ipcs_connection_t *c)
{
	int i = id_of(c);
	PROP(i >= 0 && st_accept[i] && !st_destroyed[i], "created: after accept, before destroyed");
	if (i >= 0) { PROP(st_created[i] == 0, "created at most once"); st_created[i]++; }
#if CREATED_DISC == 2
	/* the application keeps a reference of its own and then gives the connection up */
	if (i >= 0) { qb_ipcs_connection_ref(c); app_refs[i]++; }
#endif
#if CREATED_DISC
	qb_ipcs_disconnect(c);
#endif
}
static int32_t s_msg(qb_ipcs_connection_t *c, void *d, size_t n)
{
	(void)d; (void)n;
	int i = id_of(c);
	PROP(i >= 0 && st_created[i] && !st_destroyed[i], "msg_process: only between created and destroyed");
	PROP(i < 0 || st_closed[i] == 0, "msg_process: not after closed");
	if (i >= 0) st_msgs[i]++;
#if MSG_DISC
	qb_ipcs_disconnect(c);
#endif
	return 0;
}
static int32_t s_closed(qb_ipcs_connection_t *c)
{
	int i = id_of(c);
	PROP(i >= 0 && st_created[i], "closed only if created was");
	PROP(i < 0 || !st_destroyed[i], "closed not after destroyed");
	PROP(i < 0 || !st_closed_done[i], "closed is not invoked again after it returned zero");
	if (i < 0) return 0;
	st_closed[i]++;
#if CLOSED_RETRY
	if (st_closed[i] == 1) return -1;          /* ask to be called again */
#endif
	st_closed_done[i] = 1;
	return 0;
}
static void s_destroyed(qb_ipcs_connection_t *c)
{
	int i = id_of(c);
	PROP(i >= 0, "destroyed for a known connection");
	if (i < 0) return;
	PROP(st_destroyed[i] == 0, "destroyed exactly once");
	PROP(app_refs[i] == 0, "destroyed only after every application reference was dropped");
	PROP(!st_created[i] || st_closed_done[i] || 1, "(closed precedes destroyed when created was reported)");
	st_destroyed[i]++;
#if DESTROYED_ITER
	iterate_list();          /* e.g. an application counting the remaining clients when one goes away */
#endif
}
static int32_t t_connect(struct qb_ipcs_service *s, struct qb_ipcs_connection *c, struct qb_ipc_connection_response *r) { (void)s; (void)c; (void)r; return 0; }
static void t_disconnect(struct qb_ipcs_connection *c) { (void)c; }
static ssize_t t_recv(struct qb_ipc_one_way *ow, void *buf, size_t n, int32_t tmo)
{
	(void)ow; (void)tmo;
	struct qb_ipc_request_header h; h.id = 100; h.size = sizeof h;
	if (n < sizeof h) return -EINVAL;
	memcpy(buf, &h, sizeof h);
	return sizeof h;
}
static ssize_t t_qlen(struct qb_ipc_one_way *ow) { (void)ow; return 1; }
static void t_fc(struct qb_ipc_one_way *ow, int32_t e) { (void)ow; (void)e; }
static int32_t p_dispatch_add(enum qb_loop_priority p, int32_t fd, int32_t ev, void *d, qb_ipcs_dispatch_fn_t fn) { (void)p; (void)fd; (void)ev; (void)d; (void)fn; return 0; }
static int32_t p_dispatch_mod(enum qb_loop_priority p, int32_t fd, int32_t ev, void *d, qb_ipcs_dispatch_fn_t fn) { (void)p; (void)fd; (void)ev; (void)d; (void)fn; return 0; }
static int32_t p_dispatch_del(int32_t fd) { (void)fd; return 0; }
#define MAXJOBS 6
static qb_loop_job_dispatch_fn job_fn[MAXJOBS]; static void *job_data[MAXJOBS]; static int job_head_i, job_tail_i;
static int32_t p_job_add(enum qb_loop_priority p, void *data, qb_loop_job_dispatch_fn fn)
{ (void)p; PROP(job_tail_i < MAXJOBS, "harness: job queue large enough"); if (job_tail_i < MAXJOBS) { job_fn[job_tail_i] = fn; job_data[job_tail_i] = data; job_tail_i++; } return 0; }

static void new_connection(int verdict)
{
	if (svc_destroyed || nconn >= MAXC) return;
	struct qb_ipc_connection_request req;
	struct ipc_auth_ugp ugp;
	memset(&req, 0, sizeof req);
	req.hdr.id = QB_IPC_MSG_AUTHENTICATE; req.hdr.size = sizeof req; req.max_msg_size = 64;
	ugp.pid = 42; ugp.uid = 1000; ugp.gid = 1000;
	accept_verdict = verdict;
	(void)handle_new_connection(svc, 0, 10 + nconn, &req, sizeof req, &ugp);
}
/* the application may only use a connection pointer it knows to be alive: not yet destroyed, or it holds a reference */
static int usable(int i) { return i < nconn && st_accept[i] && (!st_destroyed[i] || app_refs[i] > 0) && !(st_accept[i] && !st_created[i]); }

/* known finding C04-closed-again: a further disconnect (explicit, or through qb_ipcs_destroy) of a connection whose
 * closed callback already ran and which is kept alive by a reference or a pending retry */
static void kf_guard_redisconnect(int i)
{
#ifdef KF_C04_CLOSED_AGAIN
	ASSUME(!(i < nconn && st_closed[i] >= 1 && !st_destroyed[i]));
#else
	(void)i;
#endif
}
struct opdef { uint8_t kind, arg; };
static const struct opdef ALPHA[] = {
	{0,0},        /* a new client connects and is accepted */
	{1,0},        /* a new client connects and is refused (-EACCES) */
	{2,0},        /* the client of connection 0 dies: dispatch with POLLHUP */
	{3,0},        /* qb_ipcs_disconnect(connection 0) from outside any callback */
	{4,0},        /* application takes a reference on connection 0 */
	{5,0},        /* application drops its reference on connection 0 */
	{6,0},        /* the loop runs the queued low-priority job (closed-callback retry) */
	{7,0},        /* iterate the connection list with first_get/next_get, dropping each reference */
	{8,0},        /* a request arrives on connection 0: dispatch with POLLIN */
	{9,0},        /* qb_ipcs_destroy(service) */
};
#define NALPHA 10

static void do_op(int kind)
{
	switch (kind) {
	case 0: new_connection(0); break;
	case 1: new_connection(-EACCES); break;
	case 2: if (usable(0) && !st_destroyed[0] && !st_closed[0]) (void)qb_ipcs_dispatch_connection_request(10, POLLHUP, conn[0]); break;
	case 3: if (usable(0)) { kf_guard_redisconnect(0); qb_ipcs_disconnect(conn[0]); } break;
	case 4: if (usable(0)) { qb_ipcs_connection_ref(conn[0]); app_refs[0]++; } break;
	case 5: if (app_refs[0] > 0) { app_refs[0]--; qb_ipcs_connection_unref(conn[0]); } break;
	case 6: if (job_head_i < job_tail_i) { qb_loop_job_dispatch_fn f = job_fn[job_head_i]; void *d = job_data[job_head_i]; job_head_i++; f(d); } break;
	case 7: iterate_list(); break;
	case 8: if (usable(0) && !st_destroyed[0] && !st_closed[0]) (void)qb_ipcs_dispatch_connection_request(10, POLLIN, conn[0]); break;
	case 9: if (!svc_destroyed) { for (int i = 0; i < nconn; i++) kf_guard_redisconnect(i); svc_destroyed = 1; qb_ipcs_destroy(svc); } break;
	}
}

static void harness_scenario(int s0)
{
	int s = s0 + SC_BASE;
	int ops[NOPS];
	int r = s;
	ops[0] = 0;
	for (int n = NOPS - 1; n >= 1; n--) { ops[n] = r % NALPHA; r /= NALPHA; }
	PROP(r == 0, "harness: scenario index within range");

	svc = calloc(1, sizeof *svc);
	ASSUME(svc != NULL);
	svc->type = QB_IPC_SOCKET; svc->server_sock = 3; svc->pid = 1; svc->ref_count = 1; svc->max_buffer_size = 64;
	svc->serv_fns.connection_accept = s_accept; svc->serv_fns.connection_created = s_created;
	svc->serv_fns.msg_process = s_msg; svc->serv_fns.connection_closed = s_closed; svc->serv_fns.connection_destroyed = s_destroyed;
	svc->funcs.connect = t_connect; svc->funcs.disconnect = t_disconnect; svc->funcs.recv = t_recv;
	svc->funcs.q_len_get = t_qlen; svc->funcs.fc_set = t_fc;
	svc->poll_fns.dispatch_add = p_dispatch_add; svc->poll_fns.dispatch_mod = p_dispatch_mod;
	svc->poll_fns.dispatch_del = p_dispatch_del; svc->poll_fns.job_add = p_job_add;
	qb_list_init(&svc->connections);

	for (int n = 0; n < NOPS; n++) {
		do_op(ALPHA[ops[n]].kind);
#ifdef PRELOAD_REF
		if (n == 0) do_op(4);      /* constant prefix: the application holds a reference on the first connection */
#endif
	}

	/* wind down: application drops its references, queued retries run, the service goes away */
	while (app_refs[0] > 0) do_op(5);
	for (int i = 1; i < MAXC; i++) while (i < nconn && app_refs[i] > 0) { app_refs[i]--; qb_ipcs_connection_unref(conn[i]); }    /* (references taken inside callbacks of the bystander) */
	for (int k = 0; k < MAXJOBS; k++) do_op(6);
	for (int i = 0; i < MAXC; i++) {
		if (i < nconn && st_created[i] && !st_destroyed[i] && !st_closed[i]) qb_ipcs_disconnect(conn[i]);
	}
	for (int k = 0; k < MAXJOBS; k++) do_op(6);
	for (int i = 0; i < MAXC; i++) {
		if (i >= nconn) continue;
		PROP(st_destroyed[i] == 1, "every connection is destroyed exactly once after all references were dropped");
		/* (a disconnect from inside connection_created ends the connection without a closed callback: the connection is
		 *  still ACTIVE at that point - observed, recorded in DESIGN.md; C04 only requires "closed only if created was") */
		if (!st_created[i]) PROP(st_closed[i] == 0, "no closed callback for a connection that was never reported as created");
	}
	WITNESS("scenario executed");
}
