/*
 * C17 / C18: the three map implementations against a dictionary oracle.
 *
 * IMPL 0 = hashtable (8 buckets, pool keys collide), 1 = skiplist, 2 = trie.
 *
 * Measured: with symbolic KEYS (merged or path-wise symex) even a 3-operation
 * history does not finish in 170 s -- strcmp/hash on symbolic string pointers
 * and symbolic list/trie shapes explode symbolic execution.  Therefore a history
 * is a compile-time SCENARIO: operation kinds and key/iterator arguments are
 * constants (so symex folds strcmp/strlen/hash and the heap shape is concrete),
 * and ALL scenarios of length NOPS over the alphabet below are generated:
 * FIRST fixes the first operation (one obligation each), the remaining NOPS-1
 * operations are enumerated inside the obligation.  Symbolic per scenario:
 * which value each put stores, and the skiplist's random node levels (0..1).
 *
 * kinds: 1 put(k)  3 rm(k)  4 complete iteration compared with the oracle
 *        5 iter_create(i)  6 iter_next(i)  7 iter_free(i)  8 prefix iteration (trie)
 *        9 foreach abandoned after one entry
 *
 * A global notifier (INSERTED|REPLACED|DELETED|FREE) is registered; the harness
 * predicts every callback from the dictionary transition and checks each one.
 * After the history: get of every pool key, count, complete iteration, then
 * destroy with DELETED+FREE expected exactly once per remaining value.
 *
 * Real code: lib/hashtable.c | lib/skiplist.c | lib/trie.c (called directly; the
 * function-pointer dispatch of lib/map.c is a separate obligation).
 */
#include "verif.h"
#include <string.h>
#include <stdlib.h>
#include <errno.h>
#include <qb/qbdefs.h>
#include <qb/qbmap.h>

#ifndef IMPL
#define IMPL 0
#endif
#ifndef NOPS
#define NOPS 3
#endif
#ifndef NKEYS
#define NKEYS 4
#endif

/* skiplist node level: random() is assumed to yield level <= 1 (DESIGN: levels > 1 outside the bound) */
struct { uint16_t r[8]; } in_rand;
static int rand_n;
static long verif_random(void)
{
	uint16_t r = in_rand.r[rand_n < 8 ? rand_n : 7];
	/* SKIP_LEVELS = 1: every draw ends the level loop (all nodes level 0, concrete list shape);
	 * SKIP_LEVELS = 2: every second draw does (levels 0..1, symbolic shape - far more expensive) */
#if !defined(SKIP_LEVELS) || SKIP_LEVELS == 1
	r = 0xFFFF;       /* a constant, so that symex folds the level loop */
#else
	if (rand_n & 1) r |= 0x8000;
#endif
	rand_n++;
	return r;
}
#define random verif_random
#include <time.h>
static void verif_srand(unsigned s) { (void)s; }
static time_t verif_time(time_t *t) { (void)t; return 0; }
#define srand verif_srand
#define time verif_time
#include "/repo/lib/map.c"
#if IMPL == 0
#include "/repo/lib/hashtable.c"
#elif IMPL == 1
#include "/repo/lib/skiplist.c"
#else
#include "/repo/lib/trie.c"
#endif
#undef random
#undef srand
#undef time

/* The qb_map_* wrappers of lib/map.c dispatch through function pointers; CBMC turns each such call into a
 * case split over every address-taken function of matching type, which multiplies paths.  The history below
 * calls the implementation's functions directly; the dispatch table itself is checked by c17_dispatch. */
#if IMPL == 0
#define M_PUT hashtable_put
#define M_GET hashtable_get
#define M_RM hashtable_rm
#define M_COUNT hashtable_count_get
#define M_ITER_CREATE hashtable_iter_create
#define M_ITER_NEXT hashtable_iter_next
#define M_ITER_FREE hashtable_iter_free
#define M_DESTROY hashtable_destroy
#define M_NOTIFY_ADD hashtable_notify_add
#define M_NOTIFY_DEL hashtable_notify_del
#elif IMPL == 1
#define M_PUT skiplist_put
#define M_GET skiplist_get
#define M_RM skiplist_rm
#define M_COUNT skiplist_count_get
#define M_ITER_CREATE skiplist_iter_create
#define M_ITER_NEXT skiplist_iter_next
#define M_ITER_FREE skiplist_iter_free
#define M_DESTROY skiplist_destroy
#define M_NOTIFY_ADD skiplist_notify_add
#define M_NOTIFY_DEL skiplist_notify_del
#else
#define M_PUT trie_put
#define M_GET trie_get
#define M_RM trie_rm
#define M_COUNT trie_count_get
#define M_ITER_CREATE trie_iter_create
#define M_ITER_NEXT trie_iter_next
#define M_ITER_FREE trie_iter_free
#define M_DESTROY trie_destroy
#define M_NOTIFY_ADD trie_notify_add
#endif

#if IMPL == 2
/* trie: a key that is a strict prefix of another makes trie_insert create child index 127 ('\0'), i.e. 128-entry
 * child arrays that every traversal scans; with CBMC's realloc model that costs > 120 s per scenario.  The trie
 * pool therefore has shared prefixes but no key that is a prefix of another; the non-key prefix "a" is exercised
 * by operation kind 10 (rm of a pure prefix must fail). */
static const char *const POOL[6] = { "ab", "ac", "ba", "c", "ad", "bb" };
#else
static const char *const POOL[6] = { "a", "ab", "abc", "ac", "b", "\xe9z" };
#endif
static int vals[6];                               /* value objects; value v is &vals[v] */

struct { uint8_t val[NOPS]; } in_op;

/* ---- oracle ---- */
static int present[NKEYS];
static int value_of[NKEYS];
static int key_index(const char *k);
static int val_index(void *v);

/* ---- notifier expectations ---- */
struct expect { int32_t ev; int key; int oldv; int newv; };
static struct expect exp_q[40];
static int exp_n, exp_i;
static int notify_errors;
static int free_calls_for_val[6];

static int key_index(const char *k)
{
	if (k == NULL) return -1;
	for (int i = 0; i < NKEYS; i++) if (strcmp(k, POOL[i]) == 0) return i;
	return -1;
}
static int val_index(void *v)
{
	if (v == NULL) return -1;
	for (int i = 0; i < 6; i++) if (v == (void *)&vals[i]) return i;
	return -2;
}
static int destroy_mode, destroy_deleted, destroy_freed;
static void notify_cb(uint32_t event, char *key, void *old_value, void *value, void *user_data)
{
	(void)user_data;
	if (destroy_mode) {
		/* at destroy the order of keys is the implementation's; each remaining key: DELETED then FREE, once */
		int ki = key_index(key);
		PROP(ki >= 0, "destroy notification carries a pool key");
		if (ki < 0) return;
		if (event == QB_MAP_NOTIFY_DELETED) {
			PROP(present[ki] == 1, "destroy: DELETED only for keys still present, once");
			PROP(val_index(old_value) == value_of[ki], "destroy: DELETED carries the stored value");
			present[ki] = 2; destroy_deleted++;
		} else if (event == QB_MAP_NOTIFY_FREE) {
			PROP(present[ki] == 2, "destroy: FREE follows DELETED of the same key, once");
			PROP(val_index(old_value) == value_of[ki], "destroy: FREE carries the stored value");
			present[ki] = 3; destroy_freed++;
		} else {
			PROP(0, "destroy: only DELETED and FREE notifications");
		}
		return;
	}
#if ALPHABET == 18
	/* iterators may be open: DELETED/FREE of an entry an iterator sits on may be delivered later (when the
	 * iterator moves on or is freed).  Match against the pool of outstanding expectations: per key in order. */
	{
		int hit = -1;
		for (int i = 0; i < exp_n; i++) {
			if (exp_q[i].ev == 0) continue;
			/* deferred delivery may reorder events of one key (e.g. INSERTED of a re-put before the late DELETED) */
			if (exp_q[i].key == key_index(key) && exp_q[i].ev == (int32_t)event && exp_q[i].oldv == val_index(old_value)) { hit = i; break; }
		}
		PROP(hit >= 0, "notifier: no callback beyond what the dictionary transitions prescribe");
		if (hit < 0) return;
		struct expect *e = &exp_q[hit];
		PROP((int32_t)event == e->ev, "notifier: event kind as prescribed");
		PROP(val_index(old_value) == e->oldv, "notifier: old value as prescribed");
		if (e->ev != QB_MAP_NOTIFY_FREE) PROP(val_index(value) == e->newv, "notifier: new value as prescribed");
		e->ev = 0;        /* consumed */
		return;
	}
#endif
	PROP(exp_i < exp_n, "notifier: no callback beyond what the dictionary transition prescribes");
	if (exp_i >= exp_n) return;
	struct expect *e = &exp_q[exp_i++];
	PROP((int32_t)event == e->ev, "notifier: event kind as prescribed");
	PROP(key_index(key) == e->key, "notifier: key as prescribed");
	PROP(val_index(old_value) == e->oldv, "notifier: old value as prescribed");
	if (e->ev != QB_MAP_NOTIFY_FREE) PROP(val_index(value) == e->newv, "notifier: new value as prescribed");
	if (event == QB_MAP_NOTIFY_FREE && val_index(old_value) >= 0) free_calls_for_val[val_index(old_value)]++;
}
static int ever_a;                   /* a key below "a" has ever been stored (trie scenario bookkeeping) */
static int keynotif[NKEYS];          /* a per-key notifier is registered on pool key k */
static int keycb_errors;
static void expect_key(int32_t ev, int key, int oldv, int newv);
static void key_cb(uint32_t event, char *key, void *old_value, void *value, void *user_data)
{
	/* per-key notifier: user_data = 100 + key index; expectations are tagged with key+100 */
	int want = (int)(intptr_t)user_data;
	PROP(want != 150, "a notifier on a never-stored prefix key is never called for other keys");
	if (want == 150) return;
	if (destroy_mode) {
		PROP(event == QB_MAP_NOTIFY_DELETED && keynotif[want - 100] && present[want - 100] >= 1, "destroy: key notifier only reports the deletion of its own stored key");
		return;
	}
	PROP(exp_i < exp_n, "key notifier: no callback beyond what the dictionary transition prescribes");
	if (exp_i >= exp_n) return;
	struct expect *e = &exp_q[exp_i++];
	PROP(e->key == want, "key notifier: called for the key it was registered on, before the global notifier");
	PROP((int32_t)event == e->ev, "key notifier: event kind as prescribed");
	PROP(key_index(key) == want - 100, "key notifier: key as prescribed");
	PROP(val_index(old_value) == e->oldv, "key notifier: old value as prescribed");
	PROP(val_index(value) == e->newv, "key notifier: new value as prescribed");
}
static void expect(int32_t ev, int key, int oldv, int newv)
{
	exp_q[exp_n].ev = ev; exp_q[exp_n].key = key; exp_q[exp_n].oldv = oldv; exp_q[exp_n].newv = newv;
	exp_n++;
}
#if ALPHABET == 18
#define EXPECT_DONE(tag) ((void)0)          /* deferred delivery allowed while iterators are open; settled at the end */
static int expect_outstanding(void) { int n = 0; for (int i = 0; i < exp_n; i++) if (exp_q[i].ev != 0) n++; return n; }
#else
#define EXPECT_DONE(tag) do { PROP(exp_i == exp_n, tag ": every prescribed notification was delivered"); exp_n = exp_i = 0; } while (0)
#endif

static qb_map_t *m;
#define NIT 2
static qb_map_iter_t *its[NIT];
static int it_open[NIT];
static int it_seen[NIT][NKEYS];         /* keys returned so far */
static int it_present_all[NIT][NKEYS];  /* present during the whole life of the iterator so far */
static int it_ever[NIT][NKEYS];         /* ever present during the life of the iterator */
static int it_inserted[NIT];            /* an insertion happened during the iteration */
static int it_done[NIT];
static int it_pos[NIT];               /* key index the iterator is positioned on, -1 none */
static int rm_since_pos[NIT];          /* successful removals since the iterator moved to its current position */

/* key k was removed while an open iterator is positioned on it (its node is kept alive by the iterator) */
static int removed_under_iterator(int k)
{
	for (int i = 0; i < NIT; i++) if (it_open[i] && it_pos[i] == k && !present[k]) return 1;
	return 0;
}
static int any_removed_under_iterator(void)
{
	for (int k = 0; k < NKEYS; k++) if (removed_under_iterator(k)) return 1;
	return 0;
}
static void kf_guard(int k, int is_rm)
{
	(void)k; (void)is_rm;
#if defined(KF_C18_RM_UNDER_ITERATOR) && (IMPL == 0 || IMPL == 2)
	/* known finding excluded: hashtable/trie keep the removed entry visible to get/put/rm until the iterator moves on */
	ASSUME(!removed_under_iterator(k));
#endif
#if defined(KF_C18_SKIPLIST_RM_WITH_ZOMBIE) && IMPL == 1
	/* known finding excluded: skiplist - while an iterator stays positioned on one entry, that entry AND another
	 * one are removed (in either order): the forward array shared with the removed node is freed */
	if (is_rm) {
		for (int i = 0; i < NIT; i++) {
			if (!it_open[i] || it_pos[i] < 0) continue;
			int removes_pos = (k == it_pos[i] && present[k]);
			int pos_already_removed = !present[it_pos[i]];
			/* only while the iterator's entry has no smaller present key (its predecessor is the list header): with
			 * a live predecessor the unchanged library handles these histories (seeded/C18-2 showed that the wider
			 * exclusion hid a change in exactly that branch) */
			int has_pred = 0;
			for (int j = 0; j < NKEYS; j++) if (j < it_pos[i] && present[j] && j != k) has_pred = 1;
			if (has_pred) continue;
			if ((removes_pos && rm_since_pos[i] >= 1) || (pos_already_removed && present[k])) ASSUME(0);
		}
	}
#endif
}
static void oracle_put(int k, int v)
{
	if (present[k]) {
		if (keynotif[k]) expect(QB_MAP_NOTIFY_REPLACED, k + 100, value_of[k], v);
		expect(QB_MAP_NOTIFY_REPLACED, k, value_of[k], v);
		expect(QB_MAP_NOTIFY_FREE, k, value_of[k], v);
	} else {
		if (keynotif[k]) expect(QB_MAP_NOTIFY_INSERTED, k + 100, -1, v);
		expect(QB_MAP_NOTIFY_INSERTED, k, -1, v);
		for (int i = 0; i < NIT; i++) if (it_open[i]) { it_ever[i][k] = 1; it_inserted[i] = 1; }
	}
	present[k] = 1; value_of[k] = v;
	if (k <= 1) ever_a = 1;
}
static void oracle_rm(int k)
{
	if (keynotif[k]) expect(QB_MAP_NOTIFY_DELETED, k + 100, value_of[k], -1);
#if IMPL != 2
	keynotif[k] = 0;          /* hashtable/skiplist: per-key notifiers live and die with the entry's node */
#endif
	expect(QB_MAP_NOTIFY_DELETED, k, value_of[k], -1);
	expect(QB_MAP_NOTIFY_FREE, k, value_of[k], -1);
	present[k] = 0;
	for (int i = 0; i < NIT; i++) if (it_open[i]) it_present_all[i][k] = 0;
}

/* a complete iteration must yield exactly the present keys, once each (ascending for skiplist/trie) */
static void full_iteration(const char *prefix, int pk)
{
	int seen[NKEYS];
	int last = -1;
	for (int i = 0; i < NKEYS; i++) seen[i] = 0;
	qb_map_iter_t *it = prefix ? M_ITER_CREATE(m, prefix) : M_ITER_CREATE(m, NULL);
	PROP(it != NULL, "iter_create succeeds");
	for (int n = 0; n < NKEYS + 1; n++) {
		void *v = NULL;
		const char *k = M_ITER_NEXT(it, &v);
		if (k == NULL) break;
		int ki = key_index(k);
		PROP(ki >= 0 && present[ki], "iteration yields only present keys");
		if (ki < 0) break;
		PROP(!seen[ki], "iteration yields every key at most once");
		PROP(val_index(v) == value_of[ki], "iteration yields the value of the latest put");
		if (prefix) PROP(strncmp(POOL[ki], prefix, strlen(prefix)) == 0, "prefix iteration yields only keys with the prefix");
#if IMPL != 0
		PROP(ki > last, "iteration is in ascending key order");
#endif
		last = ki;
		seen[ki] = 1;
		PROP(n < NKEYS, "iteration terminates");
	}
	for (int i = 0; i < NKEYS; i++) {
		int want = present[i] && (!prefix || strncmp(POOL[i], prefix, strlen(prefix)) == 0);
		PROP(seen[i] == want, "iteration yields every present key (with the prefix)");
	}
	M_ITER_FREE(it);
	(void)pk;
}

static int32_t stop_after_one(const char *key, void *value, void *user_data)
{
	(void)key; (void)value;
	int *cnt = user_data;
	(*cnt)++;
	return 1;        /* abandon the traversal */
}

static void check_dictionary(const char *unused)
{
	(void)unused;
	size_t cnt = 0;
	for (int i = 0; i < NKEYS; i++) {
		void *v = M_GET(m, POOL[i]);
		if (present[i]) { PROP(val_index(v) == value_of[i], "get returns the value of the latest put"); cnt++; }
		else PROP(v == NULL, "get returns nothing for an absent key");
	}
	PROP(M_COUNT(m) == cnt, "count equals the number of keys present");
}

/* op = (kind, arg) both CONSTANTS of the scenario; only values (and skiplist levels) are symbolic */
static void do_op(int kind, int arg, int n)
{
	int k = arg % NKEYS, it = arg % NIT;
#ifdef CONCRETE_VALUES
	int v = n;                                   /* fully concrete scenario (used where symbolic values stall symex) */
#else
	int v = (in_op.val[n] & 1) + 2 * (n & 1);   /* symbolic: one of two fresh values */
#endif
	switch (kind) {
	case 1:
		kf_guard(k, 0);
		oracle_put(k, v);
		M_PUT(m, POOL[k], &vals[v]);
		EXPECT_DONE("put");
		break;
	case 2: {
		void *g = M_GET(m, POOL[k]);
		if (present[k]) PROP(val_index(g) == value_of[k], "get returns the value of the latest put");
		else PROP(g == NULL, "get returns nothing for an absent key");
		break; }
	case 3: {
		kf_guard(k, 1);
		int was = present[k];
		if (was) { oracle_rm(k); for (int i = 0; i < NIT; i++) rm_since_pos[i]++; }
		int32_t r = M_RM(m, POOL[k]);
		PROP((r != 0) == (was != 0), "rm reports success exactly when the key was present");
		EXPECT_DONE("rm");
		break; }
	case 4:
		full_iteration(NULL, -1);
		break;
	case 5:
		if (!it_open[it]) {
			its[it] = M_ITER_CREATE(m, NULL);
			PROP(its[it] != NULL, "iter_create succeeds");
			it_open[it] = 1; it_done[it] = 0; it_inserted[it] = 0; it_pos[it] = -1;
			for (int i = 0; i < NKEYS; i++) { it_seen[it][i] = 0; it_present_all[it][i] = present[i]; it_ever[it][i] = present[i]; }
		}
		break;
	case 6:
		if (it_open[it] && !it_done[it]) {
			void *val = NULL;
			const char *key = M_ITER_NEXT(its[it], &val);
			if (key == NULL) {
				it_done[it] = 1; it_pos[it] = -1;
				for (int i = 0; i < NKEYS; i++)
					if (it_present_all[it][i]) PROP(it_seen[it][i] >= 1, "a key present for the whole iteration is returned by it");
			} else {
				int ki = key_index(key);
				PROP(ki >= 0 && it_ever[it][ki], "an iterator never returns a key that was never present");
				it_pos[it] = ki; rm_since_pos[it] = 0;
				if (ki >= 0) {
					it_seen[it][ki]++;
					if (!it_inserted[it]) PROP(it_seen[it][ki] == 1, "with removals only, a key is returned at most once");
				}
			}
		}
		break;
	case 7:
		if (it_open[it]) { M_ITER_FREE(its[it]); it_open[it] = 0; it_pos[it] = -1; }
		break;
	case 8:
#if IMPL == 2
		full_iteration(POOL[k], k);
#endif
		break;
	case 11: {
		/* register a per-key notifier on pool key k */
#if IMPL == 2
		if (!present[k]) break;      /* trie: registering on an absent key inserts nodes (128-entry child arrays, see POOL) */
#endif
		int32_t r = M_NOTIFY_ADD(m, POOL[k], key_cb,
			QB_MAP_NOTIFY_INSERTED | QB_MAP_NOTIFY_REPLACED | QB_MAP_NOTIFY_DELETED, (void *)(intptr_t)(100 + k));
#if IMPL == 2
		PROP(r == 0 || r == -EEXIST, "trie: a notifier can be registered on any key");
		if (r == 0) keynotif[k] = 1;
#else
		if (present[k]) { PROP(r == 0 || r == -EEXIST, "a notifier can be registered on a stored key"); if (r == 0) keynotif[k] = 1; }
		else PROP(r != 0, "hashtable/skiplist: registering on an absent key is refused");
#endif
		break; }
	case 12: {
		/* trie: a (non-recursive) notifier on the never-stored prefix "a" must never fire for the keys below it.
		 * Only while no key below "a" is stored: otherwise registering splits a node with the '\0' child index,
		 * i.e. the 128-entry child arrays this harness avoids (see POOL) */
		if (present[0] || present[1] || ever_a) break;
		int32_t r = M_NOTIFY_ADD(m, "a", key_cb,
			QB_MAP_NOTIFY_INSERTED | QB_MAP_NOTIFY_REPLACED | QB_MAP_NOTIFY_DELETED, (void *)(intptr_t)(100 + 50));
		PROP(r == 0 || r == -EEXIST, "trie: a notifier can be registered on any key");
		break; }
#if IMPL != 2
	case 13: {
		/* delete the per-key notifier of pool key k by naming a DIFFERENT (overlapping) event mask: nothing matches,
		 * -ENOENT, and the registration made by kind 11 stays active */
		if (!present[k]) break;
		if (!keynotif[k]) {          /* (make sure a registration with the three-event mask exists) */
			int32_t ra = M_NOTIFY_ADD(m, POOL[k], key_cb,
				QB_MAP_NOTIFY_INSERTED | QB_MAP_NOTIFY_REPLACED | QB_MAP_NOTIFY_DELETED, (void *)(intptr_t)(100 + k));
			PROP(ra == 0, "a notifier can be registered on a stored key");
			if (ra == 0) keynotif[k] = 1;
		}
		int32_t r = M_NOTIFY_DEL(m, POOL[k], key_cb, QB_MAP_NOTIFY_REPLACED, 1, (void *)(intptr_t)(100 + k));
		PROP(r == -ENOENT, "notify_del with an event mask that was never registered finds nothing");
		break; }
	case 14: {
		/* delete it with the exact mask it was registered with */
		if (!present[k]) break;
		int32_t r = M_NOTIFY_DEL(m, POOL[k], key_cb,
			QB_MAP_NOTIFY_INSERTED | QB_MAP_NOTIFY_REPLACED | QB_MAP_NOTIFY_DELETED, 1, (void *)(intptr_t)(100 + k));
		PROP(r == (keynotif[k] ? 0 : -ENOENT), "notify_del removes exactly the registration it names");
		keynotif[k] = 0;
		break; }
#endif
	case 10: {
		/* "a" is a prefix of stored keys but never a key itself */
		int32_t r = M_RM(m, "a");
		PROP(r == 0, "rm of a key that is only a prefix of stored keys reports failure");
		EXPECT_DONE("rm-prefix");
		break; }
	case 9: {
		int cnt = 0, np = 0;
		for (int i = 0; i < NKEYS; i++) np += present[i];
		{	/* qb_map_foreach(m, stop_after_one, &cnt) with the dispatch resolved */
			void *fv; const char *fk;
			qb_map_iter_t *fi = M_ITER_CREATE(m, NULL);
			for (fk = M_ITER_NEXT(fi, &fv); fk; fk = M_ITER_NEXT(fi, &fv)) {
				if (stop_after_one(fk, fv, &cnt)) break;
			}
			M_ITER_FREE(fi);
		}
		PROP(cnt == (np ? 1 : 0), "foreach visits entries until the callback asks to stop");
		break; }
	default:
		break;
	}
}

/* ---- scenario alphabet: a compile-time table of (kind, arg) ---- */
struct opdef { uint8_t kind, arg; };
#ifndef ALPHABET
#define ALPHABET 17
#endif
static const struct opdef ALPHA[] = {
#if ALPHABET == 17      /* C17: dictionary + notifier + complete/abandoned iteration */
	{1,0},{1,1},{1,2},{1,3}, {3,0},{3,1},{3,2},{3,3}, {4,0}, {9,0}, {11,0},{11,1},
#if IMPL == 2
	{8,0},{8,1},{10,0},{12,0},
#else
	{13,0},{14,0},
#endif
#else                    /* C18: iterators under removal/insertion (3 keys, 2 iterators) */
	{1,0},{1,1},{1,2}, {3,0},{3,1},{3,2}, {5,0},{5,1}, {6,0},{6,1}, {7,0},{7,1},
#endif
};
#define NALPHA ((int)(sizeof ALPHA / sizeof ALPHA[0]))

static void reset_all(void)
{
	for (int i = 0; i < NKEYS; i++) { present[i] = 0; value_of[i] = 0; keynotif[i] = 0; }
	ever_a = 0;
	exp_n = exp_i = 0; destroy_mode = destroy_deleted = destroy_freed = 0;
	for (int i = 0; i < NIT; i++) { it_open[i] = 0; it_done[i] = 0; its[i] = NULL; it_pos[i] = -1; rm_since_pos[i] = 0; }
}

static void run_scenario(const struct opdef *ops)
{
	reset_all();
#if IMPL == 0
	m = qb_hashtable_create(4);
#elif IMPL == 1
	m = qb_skiplist_create();
#else
	m = qb_trie_create();
#endif
	PROP(m != NULL, "create");
	int32_t nr = M_NOTIFY_ADD(m, NULL, notify_cb,
		QB_MAP_NOTIFY_INSERTED | QB_MAP_NOTIFY_REPLACED | QB_MAP_NOTIFY_DELETED | QB_MAP_NOTIFY_FREE
#if IMPL == 2
		| QB_MAP_NOTIFY_RECURSIVE    /* documented: a trie notifier on the root sees other keys only when recursive */
#endif
		, NULL);
	PROP(nr == 0, "global notifier registered");
#ifdef PRELOAD
	/* constant prefix putting the map into an interesting state: two entries, iterator 0 positioned on the first
	 * entry it returns; the enumerated operations then start from there (reaches 7-operation histories) */
	do_op(1, 0, 0); do_op(1, 1, 1); do_op(5, 0, 0); do_op(6, 0, 0);
#endif
#ifdef PRELOAD2
	/* three entries, iterator 0 advanced twice: positioned on an entry that has a live predecessor (ordered maps: the middle one) */
	do_op(1, 0, 0); do_op(1, 1, 1); do_op(1, 2, 2); do_op(5, 0, 0); do_op(6, 0, 0); do_op(6, 0, 0);
#endif
	for (int n = 0; n < NOPS; n++) do_op(ops[n].kind, ops[n].arg, n);
	/* iterators gone -> dictionary again */
	for (int i = 0; i < NIT; i++) if (it_open[i]) { M_ITER_FREE(its[i]); it_open[i] = 0; it_pos[i] = -1; }
#if ALPHABET == 18
	PROP(expect_outstanding() == 0, "every prescribed notification was delivered once the iterators are gone");
#endif
	check_dictionary("end");
	full_iteration(NULL, -1);
	int remaining = 0;
	for (int i = 0; i < NKEYS; i++) remaining += present[i];
	exp_n = exp_i = 0;
	destroy_mode = 1;
	M_DESTROY(m);
	PROP(destroy_deleted == remaining, "destroy: one DELETED per remaining key");
	PROP(destroy_freed == remaining, "destroy: the value-release notifier runs once per remaining value");
}

/* FIRST = index of the first operation in ALPHA (one obligation per first operation);
 * the remaining NOPS-1 operations range over the whole alphabet inside this obligation. */
#ifndef FIRST
#define FIRST 0
#endif
static int total_scenarios(void)
{
	int total = 1;
	for (int n = 1; n < NOPS; n++) total *= NALPHA;
	return total;
}
/* one scenario per CBMC run: the engine generates harness_<s>() { harness_scenario(s); } for s in [0, total) */
static void harness_scenario(int s)
{
	IN(in_rand); IN(in_op);
	struct opdef ops[NOPS];
	int r = s;
	ops[0] = ALPHA[FIRST];
	for (int n = NOPS - 1; n >= 1; n--) { ops[n] = ALPHA[r % NALPHA]; r /= NALPHA; }
	PROP(r == 0, "harness: scenario index within range");
	run_scenario(ops);
	WITNESS("scenario executed");
}
