/*
 * C13 (a): qb_log_target_format -- token-structured symbolic format and message.
 *
 * Format skeleton (compile-time): [PRE literal] '%' [MINUS '-'] NDIG width digits LETTER [POST literal] ["%b"]
 * Symbolic: the literal bytes, the width digits, the directive letter (any byte, so
 * known directives, unknown ones and NUL are all covered), the message (length
 * 0..MAXMSG, arbitrary non-NUL bytes incl. trailing '\n' and QB_XC), the call-site
 * strings, priority, line number, max_line_length (every value the harness range
 * allows; the range itself is obtained through the REAL qb_log_ctl2 in c13_ctl),
 * ellipsis on/off.
 *
 * The output buffer is placed between canaries: any byte written outside
 * [0, max_line_length) -- including index -1 -- is a property violation.
 *
 * Real code: lib/log_format.c qb_log_target_format, _strcpy_cutoff.
 */
#include "verif.h"
#include "pthread_seq.h"
#include <string.h>
#include <stdlib.h>
#include <stdio.h>
#include <time.h>
#include <ctype.h>
#include <qb/qbdefs.h>
#include <qb/qblog.h>

#ifndef PRE
#define PRE 0
#endif
#ifndef POST
#define POST 0
#endif
#ifndef MINUS
#define MINUS 0
#endif
#ifndef NDIG
#define NDIG 1
#endif
#ifndef WITHB
#define WITHB 1
#endif
#ifndef MAXMSG
#define MAXMSG 6
#endif
#ifndef MAXLL
#define MAXLL 12
#endif
#define FIELD_MAX 6
#define CANARY 8

/* ---- libc pieces with loops / tables: reference models (DESIGN section 3) ---- */
static int verif_isdigit(int c) { return c >= '0' && c <= '9'; }
static int verif_atoi(const char *s)
{
	int v = 0;
	for (int i = 0; i < 3 && s[i] >= '0' && s[i] <= '9'; i++) v = v * 10 + (s[i] - '0');
	return v;
}
struct { char d[FIELD_MAX + 1]; uint8_t n; } in_num;   /* text libc's snprintf produces for numbers/dates: arbitrary, <= FIELD_MAX chars */
static int verif_snprintf(char *buf, size_t size, const char *fmt, ...)
{
	(void)fmt;
	size_t n = in_num.n % (FIELD_MAX + 1);
	size_t w = 0;
	if (size == 0) return (int)n;
	for (size_t i = 0; i < n && i + 1 < size; i++) { buf[i] = in_num.d[i] ? in_num.d[i] : '7'; w++; }
	buf[w] = 0;
	return (int)n;
}
static struct tm *verif_localtime_r(const time_t *t, struct tm *res)
{
	(void)t;
	memset(res, 0, sizeof *res);
	return res;
}
/* byte loops instead of CBMC's array-theory models of memcpy/memset (measured: the built-in models with a
 * symbolic length at a symbolic offset returned contents that the native replay contradicts) */
static void *verif_memcpy(void *d, const void *s, size_t n)
{ for (size_t i = 0; i < n; i++) ((char *)d)[i] = ((const char *)s)[i]; return d; }
static void *verif_memset(void *d, int c, size_t n)
{ for (size_t i = 0; i < n; i++) ((char *)d)[i] = (char)c; return d; }
static size_t verif_strlen(const char *s)
{ size_t n = 0; while (s[n]) n++; return n; }
#undef isdigit
#define isdigit verif_isdigit
#define atoi verif_atoi
#define snprintf verif_snprintf
#define localtime_r verif_localtime_r
#define pthread_rwlock_init(a, b) 0
#define pthread_rwlock_destroy(a) 0
#define pthread_rwlock_rdlock(a) 0
#define pthread_rwlock_wrlock(a) 0
#define pthread_rwlock_unlock(a) 0
#include "os_base.h"
#include "log_int.h"
static struct qb_log_target the_target;
#define memcpy verif_memcpy
#define memset verif_memset
#define strlen verif_strlen
struct qb_log_target *qb_log_target_get(int32_t pos) { (void)pos; return &the_target; }
size_t strlcpy(char *dest, const char *src, size_t maxlen);
#include "/repo/lib/log_format.c"
#undef snprintf
#undef isdigit
#undef atoi
#undef memcpy
#undef memset
#undef strlen

/* ---- inputs ---- */
struct { char pre; char post; char dig[2]; char letter; } in_fmt;
struct { char b[MAXMSG + 1]; uint8_t len; } in_msg;
struct { char fn[FIELD_MAX + 1]; char file[FIELD_MAX + 1]; uint8_t fnlen, filelen; uint8_t prio; uint32_t line; uint32_t tags; } in_cs;
int32_t in_maxll;
uint32_t in_ellipsis;

static char area[CANARY + MAXLL + CANARY];

static void mkstr(char *dst, const char *src, unsigned len, unsigned max)
{
	unsigned n = len % (max + 1);
	for (unsigned i = 0; i < max + 1; i++) {
		char c = src[i];
		if (c == 0) c = 'x';
		dst[i] = (i < n) ? c : 0;
	}
}

void harness(void)
{
	IN(in_num); IN(in_fmt); IN(in_msg); IN(in_cs); IN(in_maxll); IN(in_ellipsis);
	ASSUME(in_maxll >= 4 && in_maxll <= MAXLL);      /* ctl-accepted values below 4 are c13_small's subject */
	ASSUME(in_ellipsis <= 1);

	/* format string */
	char fmt[12];
	int p = 0;
	if (PRE) { ASSUME(in_fmt.pre != 0 && in_fmt.pre != '%'); fmt[p++] = in_fmt.pre; }
	fmt[p++] = '%';
	if (MINUS) fmt[p++] = '-';
	for (int i = 0; i < NDIG; i++) { ASSUME(in_fmt.dig[i] >= '0' && in_fmt.dig[i] <= '9'); fmt[p++] = in_fmt.dig[i]; }
	ASSUME(!(in_fmt.letter >= '0' && in_fmt.letter <= '9'));
	fmt[p++] = in_fmt.letter;
	if (in_fmt.letter != 0) {
		if (POST) { ASSUME(in_fmt.post != 0 && in_fmt.post != '%'); fmt[p++] = in_fmt.post; }
		if (WITHB) { fmt[p++] = '%'; fmt[p++] = 'b'; }
	}
	fmt[p] = 0;

	char msg[MAXMSG + 1], fn[FIELD_MAX + 1], file[FIELD_MAX + 1];
	mkstr(msg, in_msg.b, in_msg.len, MAXMSG);
	mkstr(fn, in_cs.fn, in_cs.fnlen, FIELD_MAX);
	mkstr(file, in_cs.file, in_cs.filelen, FIELD_MAX);
	struct qb_log_callsite cs;
	memset(&cs, 0, sizeof cs);
	cs.function = fn; cs.filename = file; cs.format = "x"; cs.priority = in_cs.prio; cs.lineno = in_cs.line; cs.tags = in_cs.tags;
	struct timespec ts; ts.tv_sec = 0; ts.tv_nsec = 0;

	memset(&the_target, 0, sizeof the_target);
	the_target.format = fmt;
	the_target.max_line_length = (size_t)in_maxll;
	the_target.ellipsis = in_ellipsis;

	for (int i = 0; i < (int)sizeof area; i++) area[i] = (char)0xCC;
	char *out = area + CANARY;
	out[0] = 0;        /* as _file_logger does */

	qb_log_target_format(0, &cs, &ts, msg, out);

	for (int i = 0; i < CANARY; i++) PROP(area[i] == (char)0xCC, "nothing is written before the output buffer");
	for (int i = CANARY + in_maxll; i < (int)sizeof area; i++) {
		if (i >= CANARY + in_maxll) PROP(area[i] == (char)0xCC, "nothing is written beyond max_line_length bytes");
	}
	int nul = -1;
	for (int i = 0; i < MAXLL; i++) if (i < in_maxll && out[i] == 0 && nul < 0) nul = i;
	PROP(nul >= 0, "formatted line is NUL-terminated within max_line_length");
	if (nul < 0) return;

	/* reference: what the documented directives prescribe, untruncated */
	char ref[64];
	int r = 0;
	if (PRE) ref[r++] = in_fmt.pre;
	{
		const char *field = "";
		char numtxt[FIELD_MAX + 1];
		int known = 1;
		switch (in_fmt.letter) {
		case 'n': field = fn; break;
		case 'f': field = file; break;
		case 'b': field = msg; break;
		case 'p': field = qb_log_priority2str(in_cs.prio); break;
		case 'g': field = ""; break;
		case 'l': case 't': case 'T': {
			unsigned n = in_num.n % (FIELD_MAX + 1);
			for (unsigned i = 0; i < FIELD_MAX + 1; i++) numtxt[i] = i < n ? (in_num.d[i] ? in_num.d[i] : '7') : 0;
			field = numtxt; break; }
		default: known = 0; field = ""; break;
		}
		(void)known;
		int width = 0;
		for (int i = 0; i < NDIG; i++) width = width * 10 + (in_fmt.dig[i] - '0');
		int flen = (int)strlen(field);
		int w = width ? width : flen;
		if (w > 40) w = 40;
		int copy = flen < w ? flen : w;
		if (MINUS) { for (int i = 0; i < w - copy; i++) ref[r++] = ' '; for (int i = 0; i < copy; i++) ref[r++] = field[i]; }
		else { for (int i = 0; i < copy; i++) ref[r++] = field[i]; for (int i = 0; i < w - copy; i++) ref[r++] = ' '; }
	}
	if (in_fmt.letter != 0) {
		if (POST) ref[r++] = in_fmt.post;
		if (WITHB) for (int i = 0; msg[i]; i++) ref[r++] = msg[i];
	}
	ref[r] = 0;
	int fits = r < in_maxll - 1;
	if (fits) {
		WITNESS_BRANCH("line fits the limit");
		/* documented: a trailing newline of the formatted line is dropped */
		int explen = (r > 0 && ref[r - 1] == '\n') ? r - 1 : r;
		PROP(nul == explen, "untruncated line has the prescribed length");
		for (int i = 0; i < 40; i++) if (i < explen) PROP(out[i] == ref[i], "untruncated line equals what the directives prescribe");
	} else {
		WITNESS_BRANCH("line truncated");
		PROP(nul <= in_maxll - 1, "truncated line stays within the limit");
		if (in_ellipsis && r > in_maxll - 1) {
			PROP(nul >= 3 && out[nul - 1] == '.' && out[nul - 2] == '.' && out[nul - 3] == '.', "truncated line ends with an ellipsis when the option is on");
		}
	}
	WITNESS("end");
}
