/*
 * C11 (a): one inductive step of the OVERWRITE ring.
 *
 * Pre-state: any ring representing a ghost FIFO q (<= RING_K chunks, lengths
 * <= RING_L, any read_pt, arbitrary old contents).  One qb_rb_chunk_write
 * (or alloc + fill + commit) of len <= RING_L <= S bytes in overwrite mode.
 * Post: the write succeeded and the ring represents suffix(q, d) . [new]
 * for some d, where the kept suffix is at least the longest suffix of q.[new]
 * that fits the requested size S = 4W-13 when each chunk counts len+16 bytes;
 * a full drain with qb_rb_chunk_read then returns exactly the kept chunks.
 *
 * Real code: lib/ringbuffer.c qb_rb_chunk_alloc (overwrite branch),
 * _rb_chunk_reclaim, qb_rb_chunk_commit, qb_rb_chunk_write, qb_rb_chunk_read.
 */
#include "ring_common.h"

struct { uint32_t w[RING_W]; } in_junk;
uint32_t in_read_pt;
struct ghost_q in_q;
uint32_t in_len;
uint32_t in_via_alloc;
struct { uint8_t b[RING_L + 1]; } in_payload;

void harness(void)
{
	IN(in_junk); IN(in_read_pt); IN(in_q); IN(in_len); IN(in_via_alloc); IN(in_payload);
	ASSUME(in_read_pt < RING_W);
	ASSUME(in_q.n <= RING_K);
	for (uint32_t i = 0; i < RING_K + 1; i++) ASSUME(in_q.c[i].len <= RING_L);
	ASSUME(ghost_words(&in_q) <= RING_W - 1);
	ASSUME(in_len <= RING_L);
	ASSUME(in_len <= 4u * RING_W - 13);          /* at most the requested size S */
	ASSUME(in_via_alloc <= 1);

	for (int i = 0; i < RING_W; i++) ring_data[i] = in_junk.w[i];
	ring_build(QB_RB_FLAG_OVERWRITE | QB_RB_FLAG_NO_SEMAPHORE, in_read_pt, &in_q);

	/* start word of every queued chunk, and of the free space */
	uint32_t pos[RING_K + 2];
	uint32_t p = in_read_pt;
	for (uint32_t i = 0; i <= RING_K; i++) {
		pos[i] = p;
		if (i < in_q.n) p = WMOD(p + ring_words_of(in_q.c[i].len));
	}

	if (in_via_alloc) {
		void *d = qb_rb_chunk_alloc(&ring_rb, in_len);
		PROP(d != NULL, "overwrite: alloc of at most the requested size always succeeds");
		if (d == NULL) return;
		verif_ring_memcpy(d, in_payload.b, in_len);
		PROP(qb_rb_chunk_commit(&ring_rb, in_len) == 0, "overwrite: commit succeeds");
	} else {
		ssize_t r = qb_rb_chunk_write(&ring_rb, in_payload.b, in_len);
		PROP(r == (ssize_t)in_len, "overwrite: write of at most the requested size always succeeds");
		if (r != (ssize_t)in_len) return;
	}

	/* how many of the oldest chunks were dropped? */
	uint32_t dropped = RING_K + 2;
	for (uint32_t i = 0; i <= RING_K; i++) {
		if (i <= in_q.n && pos[i] == ring_hdr.read_pt && dropped == RING_K + 2) dropped = i;
	}
	PROP(dropped <= in_q.n, "overwrite: read position moved to a chunk boundary of the old contents");
	if (dropped > in_q.n) return;
	if (dropped > 0) WITNESS_BRANCH("overwrite dropped old chunks"); else WITNESS_BRANCH("overwrite kept everything");

	struct ghost_q q;
	q.n = 0;
	for (uint32_t i = 0; i < RING_K + 1; i++) { q.c[i].len = 0; for (uint32_t j = 0; j < RING_L + 1; j++) q.c[i].b[j] = 0; }
	for (uint32_t i = 0; i < RING_K; i++) {
		if (i + dropped < in_q.n) { q.c[q.n] = in_q.c[i + dropped]; q.n++; }
	}
	q.c[q.n].len = in_len;
	for (uint32_t j = 0; j < RING_L + 1; j++) q.c[q.n].b[j] = in_payload.b[j];
	q.n++;
	RING_CHECK_REP(&q, "overwrite post-state");

	/* minimal loss: the longest suffix of q.[new] fitting S with 16 bytes overhead per chunk must be kept */
	uint32_t budget = 4u * RING_W - 13;
	uint32_t acc = in_len + 16;
	uint32_t must_keep = 1;
	PROP(acc <= budget + 16, "harness: accounting sane");
	for (uint32_t k = 0; k < RING_K; k++) {
		/* walk old chunks newest to oldest */
		if (k < in_q.n) {
			uint32_t idx = in_q.n - 1 - k;
			if (must_keep == k + 1 && acc + in_q.c[idx].len + 16 <= budget) {
				acc += in_q.c[idx].len + 16;
				must_keep++;
			}
		}
	}
	PROP(q.n >= must_keep, "overwrite keeps at least the newest chunks that fit the requested size");
	PROP(q.n >= 1, "overwrite: the newest chunk is always readable");

	/* full drain returns exactly the kept chunks, then reports empty */
	for (uint32_t i = 0; i < RING_K + 1; i++) {
		uint8_t out[RING_L + 1];
		ssize_t r = qb_rb_chunk_read(&ring_rb, out, sizeof out, 0);
		if (i < q.n) {
			PROP(r == (ssize_t)q.c[i].len, "drain: length of the i-th kept chunk");
			for (uint32_t j = 0; j < q.c[i].len; j++) PROP(out[j] == q.c[i].b[j], "drain: bytes of the i-th kept chunk");
		} else {
			PROP(r == -ETIMEDOUT, "drain: nothing after the newest chunk");
		}
	}
	WITNESS("end of step");
}
