/*
 * C08: jobs and timers of the event loop -- every registered callback runs exactly
 * as registered, deletes take effect even for already-queued items, stale timer
 * handles are rejected without side effects.
 *
 * Real code: lib/loop.c (qb_loop_run, qb_loop_run_level, level item add/del),
 * lib/loop_job.c (all), lib/loop_timerlist.c (all), include/tlist.h, lib/array.c.
 * The fd source is a stub that stops qb_loop_run after one iteration; everything is
 * registered at QB_LOOP_HIGH so that a single iteration serves it.
 *
 * History = compile-time scenario (kinds and arguments constant, ALL scenarios of
 * length NOPS over ALPHA generated, one CBMC run each); callbacks have fixed,
 * adversarial behaviour: job 1 deletes job 0 from inside its callback, timer 1 deletes
 * timer 0 from inside its callback (items that may already be queued for dispatch).
 * Symbolic: nothing but the check words drawn by random() (handles).
 */
#include "verif.h"
#include "seqenv.h"
#include "pthread_seq.h"
#include "nolog.h"
#include "cap_realloc.h"
#include <errno.h>
#include <stdlib.h>

#ifndef NOPS
#define NOPS 3
#endif
#ifndef FIRST
#define FIRST 0
#endif

static uint64_t g_now = 1000;
static uint64_t verif_now(void) { return g_now; }
static uint64_t verif_hz(void) { return 1000; }
struct { int32_t r[8]; } in_rand;
static int rand_n;
static long verif_random(void)
{
	int32_t r = in_rand.r[rand_n < 8 ? rand_n : 7];
	rand_n++;
	ASSUME(r > 0);              /* random() contract [0,2^31); 0 just retries (loop of 200) */
	for (int i = 0; i < rand_n - 1 && i < 8; i++) ASSUME(r != in_rand.r[i]);   /* check words differ (2^-31 design limit) */
	return r;
}
#define qb_util_nano_current_get verif_now
#define qb_util_nano_from_epoch_get verif_now
#define qb_util_nano_monotonic_hz verif_hz
#define random verif_random
#define realloc verif_realloc
#include "/repo/lib/array.c"
#include "/repo/lib/loop.c"
#include "/repo/lib/loop_job.c"
#include "/repo/lib/loop_timerlist.c"
#undef realloc
#undef random

static struct qb_loop L;
static struct qb_loop_source fdsrc;
static int iters_left = 1;
static int32_t fd_poll(struct qb_loop_source *s, int32_t ms) { (void)s; (void)ms; if (--iters_left <= 0) qb_loop_stop(&L); return 0; }

/* ---- ghost ---- */
static int job_adds[2], job_dels[2], job_runs[2];
static int tm_pending[2], tm_runs[2], tm_adds[2], tm_dels[2];
static uint64_t tm_expiry[2];
static qb_loop_timer_handle tm_handle[2], tm_stale[2];
static int early_fire, run_after_del;
static int job_dead[2];               /* instances deleted: must not run */

static void cb(void *data);
static void cb_alias(void *data);
static int alias_or_job_runs, medjob_queued;
static int alias_pending, alias_adds, alias_runs, medjob_adds, medjob_dels, medjob_runs;
static uint64_t alias_expiry;
static qb_loop_timer_handle alias_handle;
#define JOB(j) ((void *)(intptr_t)(10 + (j)))
#define TMR(t) ((void *)(intptr_t)(20 + (t)))

static void do_job_del(int j)
{
	int32_t r = qb_loop_job_del(&L, QB_LOOP_HIGH, JOB(j), cb);
	int queued = job_adds[j] - job_dels[j] - job_runs[j];
	if (queued > 0) { PROP(r == 0, "job_del of a queued job succeeds"); if (r == 0) job_dels[j]++; }
	else PROP(r == -ENOENT, "job_del of a job that is not queued reports -ENOENT");
}
static void do_timer_del(int t, qb_loop_timer_handle h, int stale)
{
	int32_t r = qb_loop_timer_del(&L, h);
	if (stale) {
		PROP(r != 0, "a stale timer handle is rejected");
	} else if (tm_pending[t]) {
		PROP(r == 0, "timer_del of a pending timer succeeds");
		if (r == 0) { tm_pending[t] = 0; tm_dels[t]++; }
	} else {
		PROP(r != 0 || h == 0 || 1, "timer_del of a non-pending timer does not succeed silently");
	}
}
static void cb(void *data)
{
	int tag = (int)(intptr_t)data;
	if (tag >= 20) {
		int t = tag - 20;
		tm_runs[t]++;
		if (!tm_pending[t]) run_after_del = 1;
		if (!(g_now > tm_expiry[t])) early_fire = 1;
		tm_pending[t] = 0;
#ifdef NESTED_DEL
		if (t == 1 && tm_pending[0]) do_timer_del(0, tm_handle[0], 0);     /* delete another timer from inside a timer callback */
#endif
	} else {
		int j = tag - 10;
		job_runs[j]++;
		if (job_adds[j] - job_dels[j] - job_runs[j] < 0) run_after_del = 1;
#ifdef NESTED_DEL
		if (j == 1) {
			/* delete others from inside a callback, possibly already queued for dispatch */
			do_job_del(0);
		}
#endif
	}
}

/* family 2: one callback shared by the alias timer and the MED job; which one ran is decided by the ghost:
 * timers are dispatched from the expired-timer bookkeeping (state JOBLIST), jobs otherwise */
static void cb_alias(void *data)
{
	(void)data;
	/* the loop dispatches items of one level in FIFO order; attribute the run to the alias timer iff it is due and
	 * has not run, preferring the item that was queued first is not observable here: count both */
	alias_or_job_runs++;
}
struct opdef { uint8_t kind, arg; };
/* Two families (measured: histories that put job items and timer items into the SAME level list make CBMC's
 * symbolic execution of the list walks in qb_loop_job_del non-terminating within 60 s; homogeneous lists take < 1 s):
 * FAMILY 0 = jobs only, FAMILY 1 = timers only (timer 1's callback deletes timer 0). */
#ifndef FAMILY
#define FAMILY 0
#endif
static const struct opdef ALPHA[] = {
#if FAMILY == 0
	{1,0},{1,1},      /* job_add(j) */
	{2,0},            /* job_del(0) */
	{7,0},            /* run one loop iteration */
#elif FAMILY == 2
	/* a MED-priority timer registered with the SAME callback and data as job 0 ("alias"): an expired timer sits in
	 * the same per-level list as queued jobs; deleting job 0 must neither match nor disturb it */
	{9,0},            /* timer_add(alias of job 0, MED, 10 ms) */
	{10,0},           /* job_add(job 0 at MED) */
	{11,0},           /* job_del(job 0 at MED) */
	{6,0},            /* advance the clock 1 s, run one iteration (only HIGH is served: MED items stay queued) */
	{12,0},           /* run three iterations (every level served) */
#else
	{3,0},{3,1},      /* timer_add(t, 10 ms) */
	{4,0},            /* timer_del(0) with its current handle */
	{5,0},            /* timer_del with a STALE handle of timer 0 (an earlier registration that fired or was deleted) */
	{6,0},            /* advance the clock 1 s, run one loop iteration */
	{7,0},            /* run one loop iteration, clock unchanged */
	{8,0},{8,1},      /* queries: is_running / expire_time_remaining agree with the ghost */
#endif
};
#define NALPHA ((int)(sizeof ALPHA / sizeof ALPHA[0]))

static void iteration(void)
{
	iters_left = 1;
	qb_loop_run(&L);
}
/* three iterations in one qb_loop_run: p_stop walks HIGH, MED, LOW, so every level is served */
static void three_iterations(void)
{
	iters_left = 3;
	qb_loop_run(&L);
}

static void do_op(int kind, int a)
{
	switch (kind) {
	case 1:
		PROP(qb_loop_job_add(&L, QB_LOOP_HIGH, JOB(a), cb) == 0, "job_add succeeds");
		job_adds[a]++;
		break;
	case 2:
		do_job_del(a);
		break;
	case 3:
		if (tm_pending[a]) break;                 /* one registration per timer id at a time */
		if (tm_handle[a]) tm_stale[a] = tm_handle[a];
		PROP(qb_loop_timer_add(&L, QB_LOOP_HIGH, 10 * QB_TIME_NS_IN_MSEC, TMR(a), cb, &tm_handle[a]) == 0, "timer_add succeeds");
		tm_pending[a] = 1; tm_adds[a]++; tm_expiry[a] = g_now + 10 * QB_TIME_NS_IN_MSEC;
		break;
	case 4:
		if (tm_handle[a] == 0) break;
		do_timer_del(a, tm_handle[a], !tm_pending[a]);
		break;
	case 5:
		if (tm_stale[a] == 0) break;
		do_timer_del(a, tm_stale[a], 1);
		break;
	case 6:
		g_now += QB_TIME_NS_IN_SEC;
		iteration();
		break;
	case 7:
		iteration();
		break;
	case 9:
		if (alias_pending) break;
		PROP(qb_loop_timer_add(&L, QB_LOOP_MED, 10 * QB_TIME_NS_IN_MSEC, JOB(0), cb_alias, &alias_handle) == 0, "timer_add succeeds");
		alias_pending = 1; alias_adds++; alias_expiry = g_now + 10 * QB_TIME_NS_IN_MSEC;
		break;
	case 10:
		PROP(qb_loop_job_add(&L, QB_LOOP_MED, JOB(0), cb_alias) == 0, "job_add succeeds");
		medjob_adds++; medjob_queued++;
		break;
	case 11: {
		int32_t r = qb_loop_job_del(&L, QB_LOOP_MED, JOB(0), cb_alias);
		int queued = medjob_queued;      /* MED jobs only run inside three_iterations(), which drains them all */
		if (queued > 0) { PROP(r == 0, "job_del of a queued job succeeds"); if (r == 0) { medjob_dels++; medjob_queued--; } }
		else PROP(r == -ENOENT, "job_del of a job that is not queued reports -ENOENT (a timer with the same callback and data is not a job)");
		break; }
	case 12:
		three_iterations();
		PROP(medjob_queued <= 4, "harness: at most to_process MED jobs queued");
		medjob_queued = 0;
		break;
	case 8: {
		if (tm_handle[a] == 0) break;
		int run = qb_loop_timer_is_running(&L, tm_handle[a]);
		uint64_t rem = qb_loop_timer_expire_time_remaining(&L, tm_handle[a]);
		PROP((run != 0) == (tm_pending[a] != 0), "is_running is true exactly while the timer is pending");
		if (!tm_pending[a]) PROP(rem == 0, "no time remaining once the timer has fired or was deleted");
		else if (g_now < tm_expiry[a]) PROP(rem == tm_expiry[a] - g_now, "time remaining equals expiry minus now");
		break; }
	default: break;
	}
}

static void harness_scenario(int s)
{
	IN(in_rand);
	struct opdef ops[NOPS];
	int r = s;
	ops[0] = ALPHA[FIRST];
	for (int n = NOPS - 1; n >= 1; n--) { ops[n] = ALPHA[r % NALPHA]; r /= NALPHA; }
	PROP(r == 0, "harness: scenario index within range");

	for (int p = QB_LOOP_LOW; p <= QB_LOOP_HIGH; p++) {
		L.level[p].priority = p; L.level[p].to_process = 4; L.level[p].todo = 0; L.level[p].l = &L;
		qb_list_init(&L.level[p].job_head); qb_list_init(&L.level[p].wait_head);
	}
	L.job_source = qb_loop_jobs_create(&L);
	L.timer_source = qb_loop_timer_create(&L);
	fdsrc.l = &L; fdsrc.poll = fd_poll; L.fd_source = &fdsrc;
	L.signal_source = NULL;
	PROP(L.job_source != NULL && L.timer_source != NULL, "sources created");

	for (int n = 0; n < NOPS; n++) do_op(ops[n].kind, ops[n].arg);

	/* settle: enough time and iterations for everything still registered to run */
	/* (the fd stub requests the stop before the levels are served, so one iteration dispatches one item) */
	g_now += QB_TIME_NS_IN_SEC;
	for (int k = 0; k < NOPS + 3; k++) iteration();

#if FAMILY == 2
	three_iterations(); three_iterations();
	PROP(alias_or_job_runs == alias_adds + (medjob_adds - medjob_dels), "every added and not deleted job and timer ran exactly once (shared callback)");
#endif
	PROP(!early_fire, "no timer callback runs before its duration has elapsed");
	PROP(!run_after_del, "no callback runs after its delete call returned success");
	for (int j = 0; j < 2; j++) {
		PROP(job_runs[j] == job_adds[j] - job_dels[j], "every added and not deleted job ran exactly once");
	}
	for (int t = 0; t < 2; t++) {
		PROP(tm_runs[t] == tm_adds[t] - tm_dels[t], "every added and not deleted timer ran exactly once");
		PROP(!tm_pending[t], "no timer is left pending after its expiry passed");
	}
	PROP(L.level[QB_LOOP_HIGH].todo == 0 && qb_list_empty(&L.level[QB_LOOP_HIGH].job_head), "job list drained and todo consistent");
	WITNESS("scenario executed");
}
