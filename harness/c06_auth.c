/*
 * C06 (a) / C05 (credentials clause) / C03 (handshake-death clause):
 * the server's handshake path on ARBITRARY bytes from a not-yet-accepted peer.
 *
 * Real code: lib/ipc_setup.c qb_ipcs_uc_recv_and_auth, process_auth,
 * qb_ipc_us_recv_msghdr, qb_ipc_auth_creds, handle_new_connection, qb_ipc_us_send;
 * lib/ipcs.c qb_ipcs_connection_alloc/ref/unref, qb_ipcs_disconnect, qb_ipcs_ref/unref.
 *
 * The accepted socket is a stub: recvmsg() delivers an arbitrary byte stream in
 * arbitrary fragments (including "nothing yet" = EAGAIN, end of stream = 0 and
 * errors), optionally with an SCM_CREDENTIALS control message carrying an arbitrary
 * struct ucred; process_auth is then driven with symbolic revents up to NCALLS times
 * (POLLIN, POLLHUP, POLLNVAL, combinations).  The accept callback returns a symbolic
 * verdict; the transport connect function and send() succeed or fail symbolically.
 *
 * Checked: all writes stay inside the auth data (CBMC bounds/pointer checks on the real
 * iov arithmetic); nothing reaches connection_accept / created unless a complete,
 * well-formed request was received; the credentials handed to connection_accept are
 * exactly the ones in the control message; a refused / failed / dead handshake closes
 * the socket exactly once, frees the auth data, leaves no connection object and no
 * directory behind, gives the service reference back and delivers no further callback.
 */
#include "os_base.h"      /* config.h first: _GNU_SOURCE for struct ucred */
#include "verif.h"
#include "seqenv.h"
#include "nolog.h"
#include <string.h>
#include <stdlib.h>
#include <stdio.h>
#include <stdarg.h>
#include <errno.h>
#include <unistd.h>
#include <poll.h>
#include <sys/types.h>
#include <sys/socket.h>
#include <sys/stat.h>
#include <sys/un.h>

#ifndef NCALLS
#define NCALLS 3
#endif
#define STREAM_MAX 32
#define SOCK 5

struct { unsigned char b[STREAM_MAX]; } in_stream;
struct { uint8_t len[NCALLS + 2]; uint8_t kind[NCALLS + 2]; } in_frag;     /* kind: 0 data, 1 EAGAIN, 2 EOF, 3 error */
uint32_t in_have_cred;
struct { int32_t pid; uint32_t uid, gid; } in_cred;
struct { uint16_t ev[NCALLS]; } in_revents;
int32_t in_accept_verdict;
int32_t in_connect_res;
int32_t in_send_ok;
uint32_t in_svc_maxbuf;

static size_t spos;
static int nrecv;
static int sock_closed, sock_shutdown;
static int dirs_made, dirs_removed;
static int passcred_on_at_first_recv = -1, passcred_state;

static ssize_t verif_recvmsg(int fd, struct msghdr *msg, int flags)
{
	(void)flags;
	PROP(fd == SOCK, "env: recvmsg on the accepted socket");
	PROP(!sock_closed, "no use of the descriptor after close");
	if (passcred_on_at_first_recv < 0) passcred_on_at_first_recv = passcred_state;
	int k = nrecv < NCALLS + 2 ? nrecv : NCALLS + 1;
	nrecv++;
	uint8_t kind = in_frag.kind[k] % 4;
	if (kind == 1) { errno = EAGAIN; return -1; }
	if (kind == 2) return 0;
	if (kind == 3) { errno = ECONNRESET; return -1; }
	size_t want = msg->msg_iov[0].iov_len;
	size_t n = in_frag.len[k] % (STREAM_MAX + 1);
	if (n > want) n = want;                      /* the kernel never delivers more than asked */
	if (n > STREAM_MAX - spos) n = STREAM_MAX - spos;
	if (n == 0) { errno = EAGAIN; return -1; }
	for (size_t i = 0; i < STREAM_MAX; i++) if (i < n) ((unsigned char *)msg->msg_iov[0].iov_base)[i] = in_stream.b[spos + i];
	spos += n;
	if (in_have_cred & 1) {
		struct cmsghdr *c = (struct cmsghdr *)msg->msg_control;
		PROP(msg->msg_controllen >= CMSG_SPACE(sizeof(struct ucred)), "env: control buffer offered");
		c->cmsg_len = CMSG_LEN(sizeof(struct ucred));
		c->cmsg_level = SOL_SOCKET;
		c->cmsg_type = SCM_CREDENTIALS;
		struct ucred u; u.pid = in_cred.pid; u.uid = in_cred.uid; u.gid = in_cred.gid;
		memcpy(CMSG_DATA(c), &u, sizeof u);
		msg->msg_controllen = CMSG_SPACE(sizeof(struct ucred));
	} else {
		msg->msg_controllen = 0;
	}
	return (ssize_t)n;
}
static ssize_t verif_send(int fd, const void *buf, size_t n, int flags)
{
	(void)fd; (void)buf; (void)flags;
	if (in_send_ok & 1) return (ssize_t)n;
	errno = EPIPE; return -1;
}
static int verif_close(int fd) { if (fd == SOCK) sock_closed++; return 0; }
static int verif_shutdown(int fd, int how) { (void)how; if (fd == SOCK) sock_shutdown++; return 0; }
static int verif_setsockopt(int fd, int level, int name, const void *val, socklen_t len)
{ (void)fd; (void)level; (void)len; if (name == SO_PASSCRED) passcred_state = *(const int *)val; return 0; }
static char *verif_mkdtemp(char *tmpl) { dirs_made++; return tmpl; }
static int verif_chmod(const char *p, mode_t m) { (void)p; (void)m; return 0; }
static int verif_chown(const char *p, uid_t u, gid_t g) { (void)p; (void)u; (void)g; return 0; }
static int verif_rmdir(const char *p) { (void)p; dirs_removed++; return 0; }
static int verif_snprintf(char *buf, size_t size, const char *fmt, ...)
{ (void)fmt; if (size > 8) { memcpy(buf, "/d/q-X", 7); return 6; } if (size) buf[0] = 0; return 6; }
static char *verif_strrchr(const char *s, int c)
{ const char *r = NULL; for (int i = 0; i < 16 && s[i]; i++) if (s[i] == (char)c) r = &s[i]; return (char *)r; }

#define recvmsg verif_recvmsg
#define send verif_send
#define close verif_close
#define shutdown verif_shutdown
#define setsockopt verif_setsockopt
#define mkdtemp verif_mkdtemp
#define chmod verif_chmod
#define chown verif_chown
#define rmdir verif_rmdir
#define snprintf verif_snprintf
#define strrchr verif_strrchr
#include "/repo/lib/strlcpy.c"
#include "/repo/lib/ipc_setup.c"
#include "/repo/lib/ipcs.c"
#undef close
#undef snprintf
void qb_sigpipe_ctl(enum qb_sigpipe_ctl ctl) { (void)ctl; }
void qb_socket_nosigpipe(int32_t s) { (void)s; }
int32_t qb_sys_fd_nonblock_cloexec_set(int32_t fd) { (void)fd; return 0; }
void qb_ipcs_us_init(struct qb_ipcs_service *s) { (void)s; }
void qb_ipcs_shm_init(struct qb_ipcs_service *s) { (void)s; }

/* ---- service callbacks and transport stubs ---- */
static int cb_accept, cb_created, cb_closed, cb_destroyed, cb_msg;
static uid_t acc_uid; static gid_t acc_gid;
static struct qb_ipcs_connection *the_conn;
static int32_t s_accept(qb_ipcs_connection_t *c, uid_t uid, gid_t gid)
{ cb_accept++; acc_uid = uid; acc_gid = gid; the_conn = c; return in_accept_verdict; }
static void s_created(qb_ipcs_connection_t *c) { (void)c; cb_created++; PROP(cb_accept == 1, "created only after accept"); }
static int32_t s_msg(qb_ipcs_connection_t *c, void *d, size_t n) { (void)c; (void)d; (void)n; cb_msg++; return 0; }
static int32_t s_closed(qb_ipcs_connection_t *c) { (void)c; cb_closed++; PROP(cb_created == 1, "closed only if created was"); return 0; }
static void s_destroyed(qb_ipcs_connection_t *c) { (void)c; cb_destroyed++; }
static int t_connect_calls, t_disconnect_calls;
static int32_t t_connect(struct qb_ipcs_service *s, struct qb_ipcs_connection *c, struct qb_ipc_connection_response *r)
{ (void)s; (void)c; (void)r; t_connect_calls++; return in_connect_res; }
static void t_disconnect(struct qb_ipcs_connection *c) { (void)c; t_disconnect_calls++; }
static int d_add, d_del;
static qb_ipcs_dispatch_fn_t auth_fn; static void *auth_data;
static int32_t p_dispatch_add(enum qb_loop_priority p, int32_t fd, int32_t ev, void *data, qb_ipcs_dispatch_fn_t fn)
{ (void)p; (void)ev; if (fd == SOCK) { d_add++; auth_fn = fn; auth_data = data; } return 0; }
static int32_t p_dispatch_mod(enum qb_loop_priority p, int32_t fd, int32_t ev, void *data, qb_ipcs_dispatch_fn_t fn)
{ (void)p; (void)fd; (void)ev; (void)data; (void)fn; return 0; }
static int32_t p_dispatch_del(int32_t fd) { if (fd == SOCK) d_del++; return 0; }
static int32_t p_job_add(enum qb_loop_priority p, void *data, qb_loop_job_dispatch_fn fn) { (void)p; (void)data; (void)fn; return 0; }

void harness(void)
{
	IN(in_stream); IN(in_frag); IN(in_have_cred); IN(in_cred); IN(in_revents); IN(in_accept_verdict);
	IN(in_connect_res); IN(in_send_ok); IN(in_svc_maxbuf);
	ASSUME(in_connect_res <= 0);
	ASSUME(in_svc_maxbuf == 0 || in_svc_maxbuf == 64);        /* service default (0) or an explicit minimum */

	static struct qb_ipcs_service svc;
	memset(&svc, 0, sizeof svc);
	svc.type = QB_IPC_SOCKET;
	svc.server_sock = 3;
	svc.pid = 1;
	svc.ref_count = 1;
	svc.max_buffer_size = in_svc_maxbuf;
	svc.serv_fns.connection_accept = s_accept;
	svc.serv_fns.connection_created = s_created;
	svc.serv_fns.msg_process = s_msg;
	svc.serv_fns.connection_closed = s_closed;
	svc.serv_fns.connection_destroyed = s_destroyed;
	svc.funcs.connect = t_connect;
	svc.funcs.disconnect = t_disconnect;
	svc.poll_fns.dispatch_add = p_dispatch_add;
	svc.poll_fns.dispatch_mod = p_dispatch_mod;
	svc.poll_fns.dispatch_del = p_dispatch_del;
	svc.poll_fns.job_add = p_job_add;
	qb_list_init(&svc.connections);

	qb_ipcs_uc_recv_and_auth(SOCK, &svc);
	PROP(d_add == 1 && auth_fn != NULL, "handshake registered for dispatch");
	PROP(passcred_state == 1, "SO_PASSCRED is switched on for the accepted socket before anything is read");

	int finished = 0;
	for (int k = 0; k < NCALLS && !finished; k++) {
		int32_t rev = in_revents.ev[k] & (POLLIN | POLLHUP | POLLNVAL | POLLPRI);
		int32_t r = auth_fn(SOCK, rev, auth_data);
		if (r != 0) finished = 1;             /* process_auth returns 1 when it is done with the descriptor */
	}
	if (!finished) { WITNESS_BRANCH("handshake still pending"); return; }   /* peer slow: nothing to conclude yet */
	WITNESS_BRANCH("handshake concluded");

	PROP(d_del == 1, "the handshake descriptor is taken out of dispatch exactly once");
	int wellformed = spos >= sizeof(struct qb_ipc_connection_request);
	if (cb_accept) {
		WITNESS_BRANCH("accept callback reached");
		PROP(wellformed, "connection_accept only after a complete request was received");
		struct qb_ipc_connection_request rq;
		memcpy(&rq, in_stream.b, sizeof rq);
		PROP(rq.hdr.id == QB_IPC_MSG_AUTHENTICATE, "connection_accept only for an authenticate request");
		PROP(in_have_cred & 1, "connection_accept only when the kernel supplied credentials");
		PROP(acc_uid == in_cred.uid && acc_gid == in_cred.gid, "connection_accept gets exactly the kernel-reported uid/gid");
		PROP(passcred_on_at_first_recv == 1, "credentials passing was on when the request was read");
	}
	int established = cb_created == 1;
	if (!established) {
		/* refused, malformed, failed or dead handshake: nothing may remain */
		PROP(sock_closed == 1, "a failed handshake closes the socket exactly once");
		PROP(cb_created == 0 && cb_closed == 0 && cb_msg == 0, "no created/closed/message callback for a peer that was not accepted");
		PROP(qb_list_empty(&svc.connections), "no connection object remains listed");
		PROP(svc.ref_count == 1, "the service reference taken for the handshake is given back");
		PROP(dirs_removed >= dirs_made, "no temporary directory remains");
		if (cb_accept) PROP(cb_destroyed == 1, "a connection refused after the accept callback is destroyed exactly once");
		else PROP(cb_destroyed <= 1, "destroyed at most once");
		WITNESS_BRANCH("handshake refused or failed");
	} else {
		PROP(cb_accept == 1 && in_accept_verdict == 0, "created only if accept returned 0");
		PROP(t_connect_calls == 1 && in_connect_res == 0, "created only after the transport connected");
		PROP(sock_closed == 0, "an accepted connection keeps its setup socket");
		WITNESS_BRANCH("connection established");
	}
	WITNESS("end");
}
