/*
 * ring_common.h -- small-ring scaffolding shared by the ring harnesses
 * (C01, C02, C07, C11).
 *
 * The real lib/ringbuffer.c is #included; the ring object is built directly
 * (struct qb_ringbuffer_s + shared header + RING_W data words) instead of via
 * qb_rb_open, so RING_W need not be a page multiple.
 *
 * Circular mapping model: qb_sys_circular_mmap maps the data file twice back to
 * back, so a byte at offset o >= 4*W of the mapping is byte (o mod 4W).  In
 * ringbuffer.c every access with word index >= W goes through memcpy() (the
 * header words are indexed modulo word_size); memcpy is redirected to
 * verif_ring_memcpy which applies the modulo to pointers into ring_data.
 * Harness-side accesses through pointers handed out by the library use the
 * same helper.
 */
#ifndef RING_COMMON_H
#define RING_COMMON_H

#include "verif.h"
#include <string.h>
#include <errno.h>

#ifndef RING_W
#define RING_W 8
#endif
#ifndef RING_K
#define RING_K 3
#endif
#ifndef RING_L
#define RING_L 9
#endif
#define RING_BYTES (4u * RING_W)

#ifdef RING_EXTRA_WORD
uint32_t ring_data[RING_W + 1];   /* index W exists in the real double mapping (aliases word 0); only qb_rb_open touches it */
#else
uint32_t ring_data[RING_W];
#endif

static void *verif_ring_memcpy(void *dst, const void *src, size_t n);
#define memcpy verif_ring_memcpy
#include "nolog.h"
#include "/repo/lib/ringbuffer.c"
#undef memcpy

/* x mod m for x < 3m without a divider circuit (division by a non-power-of-two is what the SAT solver chokes on) */
static inline uint32_t ring_mod(uint32_t x, uint32_t m)
{
	if (x >= m) x -= m;
	if (x >= m) x -= m;
	return x;
}
#define WMOD(x) ring_mod((uint32_t)(x), RING_W)
#define BMOD(x) ring_mod((uint32_t)(x), RING_BYTES)

static int ring_ptr_in(const void *p, size_t *off)
{
#ifdef VERIF_CBMC
	if (__CPROVER_same_object(p, ring_data)) {
		*off = (size_t)__CPROVER_POINTER_OFFSET(p);
		return 1;
	}
	return 0;
#else
	uintptr_t a = (uintptr_t)p, b = (uintptr_t)ring_data;
	/* the real mapping is 2 x RING_BYTES long */
	if (a >= b && a < b + 2 * RING_BYTES) {
		*off = a - b;
		return 1;
	}
	return 0;
#endif
}

static void *verif_ring_memcpy(void *dst, const void *src, size_t n)
{
	size_t doff = 0, soff = 0;
	int din = ring_ptr_in(dst, &doff);
	int sin = ring_ptr_in(src, &soff);
	unsigned char *rb = (unsigned char *)ring_data;
	for (size_t i = 0; i < n; i++) {
		unsigned char c;
		if (sin) {
			c = rb[BMOD(BMOD(soff) + i)];
		} else {
			c = ((const unsigned char *)src)[i];
		}
		if (din) {
			rb[BMOD(BMOD(doff) + i)] = c;
		} else {
			((unsigned char *)dst)[i] = c;
		}
	}
	return dst;
}

/* ---- the ring object ---------------------------------------------------- */
struct qb_ringbuffer_shared_s ring_hdr;
struct qb_ringbuffer_s ring_rb;

/* ---- ghost queue -------------------------------------------------------- */
struct ghost_chunk { uint32_t len; uint8_t b[RING_L + 1]; };
struct ghost_q { uint32_t n; struct ghost_chunk c[RING_K + 1]; };

static uint32_t ring_words_of(uint32_t len) { return 2 + len / 4 + ((len % 4) ? 1 : 0); }

static uint32_t ghost_words(const struct ghost_q *q)
{
	uint32_t u = 0;
	for (uint32_t i = 0; i < q->n; i++) u += ring_words_of(q->c[i].len);
	return u;
}

static void ring_put_byte(uint32_t byteoff, uint8_t v)
{
	((uint8_t *)ring_data)[BMOD(byteoff)] = v;
}
static uint8_t ring_get_byte(uint32_t byteoff)
{
	return ((uint8_t *)ring_data)[BMOD(byteoff)];
}

/* lay the ghost queue out from read_pt on top of whatever ring_data holds */
static void ring_build(uint32_t flags, uint32_t read_pt, const struct ghost_q *q)
{
	uint32_t p = read_pt;
	ring_hdr.word_size = RING_W;
	ring_hdr.read_pt = read_pt;
	ring_hdr.ref_count = 1;
	ring_rb.flags = flags;
	ring_rb.shared_hdr = &ring_hdr;
	ring_rb.shared_data = ring_data;
	for (uint32_t i = 0; i < q->n; i++) {
		ring_data[WMOD(p)] = q->c[i].len;
		ring_data[WMOD(p + 1)] = QB_RB_CHUNK_MAGIC;
		for (uint32_t j = 0; j < q->c[i].len; j++) {
			ring_put_byte(WMOD(p + 2) * 4 + j, q->c[i].b[j]);
		}
		p = WMOD(p + ring_words_of(q->c[i].len));
	}
	ring_hdr.write_pt = p;
}

/* Rep(ring, q): read the layout back and compare with the ghost queue */
#define RING_CHECK_REP(q, tag) do { \
	uint32_t p_ = ring_hdr.read_pt; \
	PROP(p_ < RING_W, tag ": read_pt inside ring"); \
	PROP(ring_hdr.write_pt < RING_W, tag ": write_pt inside ring"); \
	for (uint32_t i_ = 0; i_ < (q)->n; i_++) { \
		PROP(ring_data[WMOD(p_)] == (q)->c[i_].len, tag ": chunk size word matches ghost"); \
		PROP(ring_data[WMOD(p_ + 1)] == QB_RB_CHUNK_MAGIC, tag ": chunk magic present"); \
		for (uint32_t j_ = 0; j_ < (q)->c[i_].len; j_++) { \
			PROP(ring_get_byte(WMOD(p_ + 2) * 4 + j_) == (q)->c[i_].b[j_], tag ": payload byte matches ghost"); \
		} \
		p_ = WMOD(p_ + ring_words_of((q)->c[i_].len)); \
	} \
	PROP(p_ == ring_hdr.write_pt, tag ": write_pt == read_pt + words of queued chunks"); \
	PROP(ghost_words(q) <= RING_W - 1, tag ": queued words <= W-1"); \
} while (0)

#endif
