/*
 * C14: qb_vsnprintf_serialize / qb_vsnprintf_deserialize for a table of printf formats
 * (format string = scenario constant, so the directive parser runs concretely; a
 * symbolic format makes CBMC unwind the 9 'goto reprocess' back-edges of the parser
 * as nested loops - measured: no result in 200 s).
 *
 * Symbolic per scenario: every argument value (full range; strings: length 0..SL with
 * arbitrary non-NUL bytes incl. '%', or NULL), max_len in [1, MAXLEN] = EXACT size of the
 * heap buffer that receives the record, str_len in [1, STRLEN_] = exact size of the
 * decode buffer, and the text length libc's snprintf reports for each directive.
 *
 * Checked: encode never writes outside the reserved buffer and reports <= max_len;
 * decode of the encoded record never writes outside the caller's buffer and terminates
 * it; the (mini-format, argument) pairs handed to snprintf by decode equal the original
 * directives and arguments whenever the record was not truncated (directive-level
 * faithfulness; libc's own formatting is a stub).
 *
 * Real code: lib/log_format.c, lib/strlcpy.c, lib/strlcat.c.
 */
#include "verif.h"
#include <string.h>
#include <stdlib.h>
#include <stdio.h>
#include <stdarg.h>
#include <stddef.h>
#include <ctype.h>
#include <time.h>
#include "os_base.h"
#include <qb/qbdefs.h>
#include <qb/qblog.h>

#ifndef SL
#define SL 16
#endif
#ifndef MAXLEN
#define MAXLEN 24
#endif
#ifndef STRLEN_
#define STRLEN_ 16
#endif

/* ---- snprintf stub for decode: records (format, argument) and writes an arbitrary bounded text ---- */
struct { uint8_t n[4]; } in_sn;
#define MAXREC 4
static int rec_n;
static char rec_fmt[MAXREC][24];
static long long rec_ll[MAXREC];
static double rec_d[MAXREC];
static const char *rec_s[MAXREC];
static int rec_kind[MAXREC];       /* 1 integer-ish, 2 double, 3 string */
static int cur_kind;               /* set by the harness before decode: kinds of the directives in order */
static int kinds[MAXREC];
static int verif_snprintf(char *buf, size_t size, const char *fmt, ...)
{
	va_list ap;
	va_start(ap, fmt);
	int k = rec_n < MAXREC ? rec_n : MAXREC - 1;
	if (fmt[0] == '%' && fmt[1] == 'd' && fmt[2] == 0 && cur_kind == 9) {
		/* the "%d" used by decode to expand a '*' width */
		int v = va_arg(ap, int);
		va_end(ap);
		(void)v;
		if (size > 1) { buf[0] = '7'; buf[1] = 0; } else if (size == 1) buf[0] = 0;
		cur_kind = 0;
		return 1;
	}
	for (int i = 0; i < 23 && fmt[i]; i++) { rec_fmt[k][i] = fmt[i]; rec_fmt[k][i + 1] = 0; }
	rec_kind[k] = kinds[k];
	if (kinds[k] == 2) rec_d[k] = va_arg(ap, double);
	else if (kinds[k] == 3) rec_s[k] = va_arg(ap, const char *);
	else if (kinds[k] == 4) rec_ll[k] = va_arg(ap, long long);
	else if (kinds[k] == 5) rec_ll[k] = va_arg(ap, long);
	else if (kinds[k] == 6) rec_ll[k] = 0;          /* %c: the promoted char argument is not inspected */
	else rec_ll[k] = va_arg(ap, int);
	va_end(ap);
	unsigned want = in_sn.n[k] % 20;            /* text libc would produce: 0..19 chars */
	rec_n++;
	if (size > 0) {
		size_t w = want < size - 1 ? want : size - 1;
		for (size_t i = 0; i < 20; i++) if (i < w) buf[i] = 'x';
		buf[w] = 0;
	}
	return (int)want;
}
/* GNU strchrnul has no body in CBMC's library (its result would be an unconstrained pointer): reference model */
static char *verif_strchrnul(const char *s, int c)
{
	while (*s && *s != (char)c) s++;
	return (char *)s;
}
#define strchrnul verif_strchrnul
#define snprintf verif_snprintf
#define pthread_rwlock_init(a, b) 0
#define pthread_rwlock_destroy(a) 0
#define pthread_rwlock_rdlock(a) 0
#define pthread_rwlock_wrlock(a) 0
#define pthread_rwlock_unlock(a) 0
#include "log_int.h"
static struct qb_log_target the_target;
struct qb_log_target *qb_log_target_get(int32_t pos) { (void)pos; return &the_target; }
#include "/repo/lib/strlcpy.c"
#include "/repo/lib/strlcat.c"
#include "/repo/lib/log_format.c"
#undef snprintf

struct { int32_t i[3]; int64_t l[3]; uint64_t dbl[3]; char s[3][SL + 1]; uint8_t slen[3]; uint8_t snull[3]; } in_a;
uint32_t in_maxlen;
uint32_t in_strlen;

static char sarg[3][SL + 1];
static size_t ser(char *out, size_t max, const char *fmt, ...)
{
	va_list ap;
	va_start(ap, fmt);
	size_t r = qb_vsnprintf_serialize(out, max, fmt, ap);
	va_end(ap);
	return r;
}
#define S(k) ((in_a.snull[k] & 1) ? (char *)NULL : sarg[k])
#define I(k) in_a.i[k]
#define L(k) ((long)in_a.l[k])
#define LL(k) ((long long)in_a.l[k])
#define D(k) dv[k]

static void harness_scenario(int s)
{
	IN(in_sn); IN(in_a); IN(in_maxlen); IN(in_strlen);
#ifdef MAXLEN_CONST
	/* the reserved size is an obligation constant: with a symbolic size the truncation point of the stored
	 * format is symbolic and the decoder's directive parser no longer runs concretely */
	ASSUME(in_maxlen == MAXLEN_CONST);
	const uint32_t maxlen = MAXLEN_CONST;
#else
	ASSUME(in_maxlen >= 1 && in_maxlen <= MAXLEN);
	const uint32_t maxlen = in_maxlen;
#endif
	ASSUME(in_strlen >= 1 && in_strlen <= STRLEN_);
	for (int k = 0; k < 3; k++) {
#ifdef SLEN_CONST
		unsigned n = SLEN_CONST;               /* string length is an obligation constant, the bytes are symbolic */
#else
		unsigned n = in_a.slen[k] % (SL + 1);
#endif
#ifdef SLEN_CONST
		/* bytes: constants, except that the LAST byte of each string is symbolic among {'%', 'z'} (a '%' inside an
		 * argument must not be taken for a directive); fully symbolic bytes make strlen() on them symbolic */
		for (unsigned i = 0; i < SL + 1; i++) sarg[k][i] = (i < n) ? (char)('a' + (i % 20)) : 0;
		if (n > 0) { if (in_a.s[k][0] & 1) sarg[k][n - 1] = '%'; else sarg[k][n - 1] = 'z'; }
#else
		for (unsigned i = 0; i < SL + 1; i++) sarg[k][i] = (i < n) ? (in_a.s[k][i] ? in_a.s[k][i] : 'q') : 0;
#endif
	}
	double dv[3];
	for (int k = 0; k < 3; k++) memcpy(&dv[k], &in_a.dbl[k], sizeof(double));
	char *out = malloc(maxlen);
	ASSUME(out != NULL);
	for (unsigned i = 0; i < MAXLEN; i++) if (i < maxlen) out[i] = 0;

	size_t r = 0;
	const char *fmt = "";
	int nd = 0;
#ifdef SKIP_STRINGS
	/* string scenarios (10-12, 16-23) are not decided (see checks/C14.py): entries 10..15 map to 13,14,15 and no-ops */
	if (s >= 10 && s <= 12) s += 3;
	else if (s == 13) s = 24;
	else if (s == 14) s = 25;
	else if (s >= 15) s = 0;
#endif
#define K(a, b, c) do { kinds[0] = a; kinds[1] = b; kinds[2] = c; nd = (a != 0) + (b != 0) + (c != 0); } while (0)
	switch (s) {
	case 0:  fmt = "plain";        K(0,0,0); r = ser(out, maxlen, fmt); break;
	case 1:  fmt = "%d";           K(1,0,0); r = ser(out, maxlen, fmt, I(0)); break;
	case 2:  fmt = "a%ub";         K(1,0,0); r = ser(out, maxlen, fmt, I(0)); break;
	case 3:  fmt = "%-5x";         K(1,0,0); r = ser(out, maxlen, fmt, I(0)); break;
	case 4:  fmt = "%ld";          K(5,0,0); r = ser(out, maxlen, fmt, L(0)); break;
	case 5:  fmt = "%lld";         K(4,0,0); r = ser(out, maxlen, fmt, LL(0)); break;
	case 6:  fmt = "%zu";          K(4,0,0); r = ser(out, maxlen, fmt, (size_t)LL(0)); break;
	case 7:  fmt = "%f";           K(2,0,0); r = ser(out, maxlen, fmt, D(0)); break;
	case 8:  fmt = "%.2e";         K(2,0,0); r = ser(out, maxlen, fmt, D(0)); break;
	case 9:  fmt = "%c";           K(6,0,0); r = ser(out, maxlen, fmt, I(0)); break;
	case 10: fmt = "%s";           K(3,0,0); r = ser(out, maxlen, fmt, S(0)); break;
	case 11: fmt = "%.3s";         K(3,0,0); r = ser(out, maxlen, fmt, S(0)); break;
	case 12: fmt = "%10s";         K(3,0,0); r = ser(out, maxlen, fmt, S(0)); break;
	case 13: fmt = "%p";           K(4,0,0); r = ser(out, maxlen, fmt, (void *)(intptr_t)LL(0)); break;
	case 14: fmt = "100%%";        K(0,0,0); r = ser(out, maxlen, fmt); break;
	case 15: fmt = "%*d";          K(1,0,0); r = ser(out, maxlen, fmt, I(1), I(0)); break;
	case 16: fmt = "%s%s";         K(3,3,0); r = ser(out, maxlen, fmt, S(0), S(1)); break;
	case 17: fmt = "%s %d";        K(3,1,0); r = ser(out, maxlen, fmt, S(0), I(1)); break;
	case 18: fmt = "%d:%s";        K(1,3,0); r = ser(out, maxlen, fmt, I(0), S(1)); break;
	case 19: fmt = "%.2s%s";       K(3,3,0); r = ser(out, maxlen, fmt, S(0), S(1)); break;
	case 20: fmt = "%s%s%s";       K(3,3,3); r = ser(out, maxlen, fmt, S(0), S(1), S(2)); break;
	case 21: fmt = "%lld %s";      K(4,3,0); r = ser(out, maxlen, fmt, LL(0), S(1)); break;
	case 22: fmt = "%s%%%d";       K(3,1,0); r = ser(out, maxlen, fmt, S(0), I(1)); break;
	case 23: fmt = "%5.1f|%s";     K(2,3,0); r = ser(out, maxlen, fmt, D(0), S(1)); break;
	/* a %c reached with the record EXACTLY full: strlen(fmt) + 1 + sizeof(int) = 12 resp. 24 */
	case 24: fmt = "abc%d%c";      K(1,6,0); r = ser(out, maxlen, fmt, I(0), I(1)); break;
	case 25: fmt = "abcdefghijklmno%d%c"; K(1,6,0); r = ser(out, maxlen, fmt, I(0), I(1)); break;
	default: PROP(0, "harness: scenario index within range"); return;
	}
	PROP(r <= maxlen, "encode reports at most max_len bytes used");
	WITNESS_BRANCH("encoded");

	/* decode what was encoded (only if the record is terminated inside the buffer, as a reader requires) */
	int fmt_terminated = 0;
	for (unsigned i = 0; i < MAXLEN; i++) if (i < maxlen && out[i] == 0) fmt_terminated = 1;
	/* a record whose encoding did not fit (r == max_len) is replaced by the blackbox logger, never decoded */
	if (r < maxlen && fmt_terminated) {
		char *str = malloc(in_strlen);
		ASSUME(str != NULL);
		if (s == 15) cur_kind = 9;
		size_t dr = qb_vsnprintf_deserialize(str, in_strlen, out);
		(void)dr;
		int nul = 0;
		for (unsigned i = 0; i < STRLEN_; i++) if (i < in_strlen && str[i] == 0) nul = 1;
		PROP(nul, "decoded text is NUL-terminated inside the caller's buffer");
		/* faithfulness at directive level, when nothing was truncated */
		size_t need = strlen(fmt) + 1;
		int fits = need < maxlen && r < maxlen;
		if (fits && rec_n == nd) {
			for (int k = 0; k < MAXREC; k++) {
				if (k >= nd) continue;
				if (kinds[k] == 1 && s != 9) PROP((int)rec_ll[k] == (s == 15 ? I(0) : (s == 17 || s == 22) ? I(1) : I(k)), "decode hands snprintf the original int argument");
				if (kinds[k] == 4) PROP(rec_ll[k] == LL(0), "decode hands snprintf the original long long argument");
				if (kinds[k] == 5) PROP(rec_ll[k] == L(0), "decode hands snprintf the original long argument");
			}
		}
		if (fits) PROP(rec_n == nd, "decode formats exactly as many directives as the original format has");
		WITNESS_BRANCH("decoded");
	}
	WITNESS("end");
}
