/*
 * C20 (a): one inductive step of the handle database.
 *
 * Pre-state: a real qb_hdb whose first HDB_N slots are each in an ARBITRARY
 * representable state (EMPTY / ACTIVE / PENDING-REMOVAL with arbitrary check
 * word > 0, arbitrary reference count >= 1, live instance object), arbitrary
 * handle_count <= HDB_N.  One real API call with a FULLY SYMBOLIC 64-bit
 * handle.  Post-state compared against the ghost copy.
 *
 * Real code: lib/hdb.c (all), lib/array.c (qb_array_index/grow/create).
 */
#include "verif.h"
#include "seqenv.h"
#include <string.h>
#include <stdlib.h>
#include <errno.h>

#ifndef HDB_ISIZE
#define HDB_ISIZE 8
#endif
#ifndef HDB_N
#define HDB_N 3
#endif

struct { int32_t v[3]; } in_rand;
static int rand_calls;
static long verif_random(void)
{
	int32_t r = in_rand.v[rand_calls < 3 ? rand_calls : 2];
	rand_calls++;
	ASSUME(r >= 0);
	/* contract of random(): [0, 2^31); the PRNG does not return 0 twice in a row (else the
	 * 200-try loop of qb_hdb_handle_create would need unwinding 200) */
	if (rand_calls >= 2) ASSUME(r > 0);
	return r;
}
#include "cap_realloc.h"
#define random verif_random
#define realloc verif_realloc
#include "/repo/lib/array.c"
#undef realloc
#include "/repo/lib/hdb.c"
#undef random

enum { G_EMPTY = 0, G_PENDING = 1, G_ACTIVE = 2 };
struct gslot { uint32_t state; int32_t check; int32_t ref; };
struct { struct gslot s[HDB_N]; } in_g;
uint32_t in_count;
uint32_t in_op;
uint64_t in_handle;
uint32_t in_iter;
int32_t in_size;

static struct qb_hdb db;
static void *inst[HDB_N + 1];
static int dtor_calls;
static void *dtor_arg;
static void dtor(void *p) { dtor_calls++; dtor_arg = p; }

/* slots 0..15 live in bin 0 of the real qb_array; the harness reads/writes them directly */
static struct qb_hdb_handle *bin0;
static struct qb_hdb_handle *entry_of(int i)
{
	if (bin0 == NULL) {
		struct qb_hdb_handle *e = NULL;
		int rc = qb_array_index(db.handles, 0, (void **)&e);
		PROP(rc == 0 && e != NULL, "harness: slot addressable");
		bin0 = e;
	}
	return &bin0[i];
}

static int matches(const struct gslot *g, int32_t check)
{
	return check == (int32_t)UINT32_MAX || check == g->check;
}

void harness(void)
{
	IN(in_rand); IN(in_g); IN(in_count); IN(in_op); IN(in_handle); IN(in_iter); IN(in_size);
	ASSUME(in_count <= HDB_N);
#ifdef HDB_OP
	const uint32_t op = HDB_OP;     /* one obligation per operation kind: symex prunes the other branches */
#else
	const uint32_t op = in_op;
	ASSUME(in_op < 6);
#endif
	ASSUME(in_iter <= in_count);
	ASSUME(in_size >= 1 && in_size <= 8);

	qb_hdb_create(&db);
	db.destructor = dtor;
	/* build the arbitrary pre-state */
	/* qb_hdb_create made a 32-element array: slots 0..HDB_N live in bin 0, no growth needed */
	for (int i = 0; i < HDB_N; i++) {
		struct qb_hdb_handle *e = entry_of(i);
		struct gslot *g = &in_g.s[i];
		if (i >= (int)in_count) ASSUME(g->state == G_EMPTY);
		ASSUME(g->state <= G_ACTIVE);
		if (g->state == G_EMPTY) {
			ASSUME(g->check == 0 && g->ref == 0);
			inst[i] = NULL;
		} else {
			ASSUME(g->check > 0);
			ASSUME(g->ref >= 1 && g->ref < 1000);
			inst[i] = malloc(4);
			ASSUME(inst[i] != NULL);
		}
		e->state = (g->state == G_EMPTY) ? QB_HDB_HANDLE_STATE_EMPTY :
			   (g->state == G_PENDING) ? QB_HDB_HANDLE_STATE_PENDINGREMOVAL : QB_HDB_HANDLE_STATE_ACTIVE;
		e->check = g->check;
		e->ref_count = g->ref;
		e->instance = inst[i];
	}
	db.handle_count = in_count;
	db.iterator = in_iter;

	struct gslot g2[HDB_N + 1];
	for (int i = 0; i < HDB_N; i++) g2[i] = in_g.s[i];
	g2[HDB_N].state = G_EMPTY; g2[HDB_N].check = 0; g2[HDB_N].ref = 0;
	uint32_t count2 = in_count;

	int32_t check = (int32_t)(in_handle >> 32);
	int32_t slot = (int32_t)(in_handle & UINT32_MAX);
	int inrange = slot >= 0 && (uint32_t)slot < in_count;
	int touched = -1;      /* slot whose instance may legitimately be released */

	if (op == 0) {
		/* ---- get ---- */
		void *p = (void *)&db;
		int32_t r = qb_hdb_handle_get(&db, in_handle, &p);
		int valid = inrange && in_g.s[slot].state == G_ACTIVE && matches(&in_g.s[slot], check);
		if (valid) {
			PROP(r == 0, "get resolves a live handle");
			PROP(p == inst[slot], "get returns the object the handle was created for");
			g2[slot].ref++;
			WITNESS_BRANCH("get ok");
		} else {
			PROP(r == -EBADF, "get refuses destroyed / stale / never-issued handles");
			PROP(p == NULL, "refused get returns no object");
			WITNESS_BRANCH("get refused");
		}
	} else if (op == 1) {
		/* ---- put ---- */
		int valid = inrange && in_g.s[slot].state != G_EMPTY && matches(&in_g.s[slot], check);
		int32_t r = qb_hdb_handle_put(&db, in_handle);
		if (valid) {
			PROP(r == 0, "put of an outstanding reference succeeds (also after destroy)");
			g2[slot].ref--;
			if (g2[slot].ref == 0) {
				PROP(dtor_calls == 1 && dtor_arg == inst[slot], "destructor runs exactly when the count reaches zero");
				g2[slot].state = G_EMPTY; g2[slot].check = 0;
				touched = slot;
				WITNESS_BRANCH("put releases");
			}
		} else {
			PROP(r == -EBADF, "put refuses stale / never-issued handles");
			WITNESS_BRANCH("put refused");
		}
	} else if (op == 2) {
		/* ---- destroy (precondition: at most one destroy per issued handle => slot is ACTIVE) ---- */
		int valid = inrange && in_g.s[slot].state != G_EMPTY && matches(&in_g.s[slot], check);
		if (valid) ASSUME(in_g.s[slot].state == G_ACTIVE);
		int32_t r = qb_hdb_handle_destroy(&db, in_handle);
		if (valid) {
			PROP(r == 0, "destroy of a live handle succeeds");
			g2[slot].ref--;
			g2[slot].state = G_PENDING;
			if (g2[slot].ref == 0) {
				PROP(dtor_calls == 1 && dtor_arg == inst[slot], "destructor runs exactly when the count reaches zero");
				g2[slot].state = G_EMPTY; g2[slot].check = 0;
				touched = slot;
				WITNESS_BRANCH("destroy releases");
			} else {
				WITNESS_BRANCH("destroy pending");
			}
		} else {
			PROP(r == -EBADF, "destroy refuses stale / never-issued handles");
			WITNESS_BRANCH("destroy refused");
		}
	} else if (op == 3) {
		/* ---- refcount_get ---- */
		int valid = inrange && in_g.s[slot].state != G_EMPTY && matches(&in_g.s[slot], check);
		int32_t r = qb_hdb_handle_refcount_get(&db, in_handle);
		if (valid) {
			PROP(r == in_g.s[slot].ref, "refcount_get reports 1 + gets - puts");
		} else {
			PROP(r == -EBADF, "refcount_get refuses stale / never-issued handles");
		}
		WITNESS_BRANCH("refcount");
	} else if (op == 4) {
		/* ---- create, then a stale copy of the slot's previous handle must stay invalid ---- */
		qb_handle_t h = 0;
		/* instance size concretised (a symbolic malloc size makes the SAT encoding explode; the property does not depend on it) */
		int32_t r = qb_hdb_handle_create(&db, HDB_ISIZE, &h);
		PROP(r == 0, "create succeeds");
		int32_t nslot = (int32_t)(h & UINT32_MAX);
		int32_t ncheck = (int32_t)(h >> 32);
		int exp = -1;
		for (int i = (int)in_count - 1; i >= 0; i--) if (in_g.s[i].state == G_EMPTY) exp = i;
		if (exp < 0) { exp = (int)in_count; count2 = in_count + 1; }
		PROP(nslot == exp, "create uses the first free slot, else appends");
		PROP(ncheck > 0, "issued check word is positive");
		g2[exp].state = G_ACTIVE; g2[exp].check = ncheck; g2[exp].ref = 1;
		struct qb_hdb_handle *e = entry_of(exp);
		PROP(e->instance != NULL, "create allocates the object");
		for (int k = 0; k < HDB_ISIZE; k++) PROP(((char *)e->instance)[k] == 0, "new object is zeroed");
		inst[exp] = e->instance;
		/* any copy of a handle previously issued for this slot (check word != new one, section 3 assumption) */
		ASSUME(slot == nslot && check != ncheck && check != (int32_t)UINT32_MAX);
		void *p = NULL;
		PROP(qb_hdb_handle_get(&db, in_handle, &p) == -EBADF && p == NULL, "stale copy stays invalid after slot reuse (get)");
		PROP(qb_hdb_handle_put(&db, in_handle) == -EBADF, "stale copy stays invalid after slot reuse (put)");
		PROP(qb_hdb_handle_destroy(&db, in_handle) == -EBADF, "stale copy stays invalid after slot reuse (destroy)");
		PROP(qb_hdb_handle_refcount_get(&db, in_handle) == -EBADF, "stale copy stays invalid after slot reuse (refcount)");
		WITNESS_BRANCH("create");
	} else {
		/* ---- iterator_next from an arbitrary position ---- */
		void *p = NULL;
		qb_handle_t h = 0;
		int32_t r = qb_hdb_iterator_next(&db, &p, &h);
		int exp = -1;
		for (int i = (int)in_count - 1; i >= (int)in_iter; i--) if (in_g.s[i].state == G_ACTIVE) exp = i;
		if (exp >= 0) {
			PROP(r == 0, "iteration finds the next not-destroyed object");
			PROP(p == inst[exp], "iteration returns that object");
			PROP((int32_t)(h & UINT32_MAX) == exp && (int32_t)(h >> 32) == in_g.s[exp].check, "iteration returns its handle");
			PROP(db.iterator == (uint32_t)exp + 1, "iterator advances past it");
			g2[exp].ref++;
			WITNESS_BRANCH("iter found");
		} else {
			PROP(r != 0, "iteration ends when no not-destroyed object is left");
			PROP(db.iterator == in_count, "iterator exhausted");
			WITNESS_BRANCH("iter end");
		}
	}

	/* post-state == ghost */
	PROP(db.handle_count == count2, "handle_count as expected");
	for (int i = 0; i < HDB_N + 1; i++) {
		if (i >= (int)count2) continue;
		struct qb_hdb_handle *e = entry_of(i);
		if (g2[i].state == G_EMPTY) {
			PROP(e->state == QB_HDB_HANDLE_STATE_EMPTY && e->check == 0 && e->instance == NULL && e->ref_count == 0,
			     "released / untouched empty slot is zeroed");
		} else {
			PROP(e->state == (g2[i].state == G_ACTIVE ? QB_HDB_HANDLE_STATE_ACTIVE : QB_HDB_HANDLE_STATE_PENDINGREMOVAL),
			     "slot state as expected");
			PROP(e->check == g2[i].check, "check word as expected");
			PROP(e->ref_count == g2[i].ref, "reference count equals 1 + gets - puts");
			PROP(e->instance == inst[i], "object pointer unchanged");
		}
	}
	PROP(dtor_calls == (touched >= 0 ? 1 : 0), "destructor runs exactly once per released object and never otherwise");
	WITNESS("end of step");
}
