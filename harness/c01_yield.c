/*
 * C01 (sequentialised): writer and reader interleaved at the granularity of every
 * access to the shared ring state, ONE preemption: one party runs a complete
 * operation while the other is suspended at an ARBITRARY scheduling point inside its
 * own operation (QB_VERIF_YIELD hooks in lib/ringbuffer.c, compiled in with
 * -DQB_VERIF_HOOKS), from an ARBITRARY ring state representing an arbitrary ghost
 * FIFO (as in C07: any read position, any old contents, lengths not divisible by 4,
 * full and empty rings, wrap-around).
 *
 *   MODE 0: the reader performs qb_rb_chunk_read; at scheduling point in_point the
 *           writer performs a complete qb_rb_chunk_write.
 *   MODE 1: the writer performs qb_rb_chunk_write; at scheduling point in_point the
 *           reader performs a complete qb_rb_chunk_read.
 * Afterwards the ring is drained sequentially.  Oracle: the successful reads, in
 * order, are exactly the queued chunks followed by the new one if its write
 * succeeded - same lengths, same bytes; nothing is lost, duplicated or damaged.
 *
 * This is plain sequential C: every counterexample replays natively.  It does not
 * cover schedules with more than one preemption (the CBMC thread-mode harness
 * c01_threads.c covers all schedules of its smaller bound).
 */
#define QB_VERIF_HOOKS 1
#include "ring_common.h"

#ifndef MODE
#define MODE 0
#endif
#ifndef RING_SEM
#define RING_SEM 0
#endif

struct { uint32_t w[RING_W]; } in_junk;
uint32_t in_read_pt;
struct ghost_q in_q;
uint32_t in_len;
uint32_t in_point;
struct { uint8_t b[RING_L + 1]; } in_payload;

static int32_t sem_count;
static int32_t st_post(void *i, size_t s) { (void)i; (void)s; sem_count++; return 0; }
static ssize_t st_qlen(void *i) { (void)i; return sem_count; }
static int32_t st_timedwait(void *i, int32_t ms) { (void)i; (void)ms; if (sem_count <= 0) return -ETIMEDOUT; sem_count--; return 0; }
static int32_t st_reclaim(void *i, size_t s) { (void)i; (void)s; return 0; }

static int other_done;
static ssize_t w_res = -9999, r_res = -9999;
static uint8_t r_out[RING_L + 1];

static void do_write(void) { w_res = qb_rb_chunk_write(&ring_rb, in_payload.b, in_len); }
static void do_read(void) { for (int j = 0; j < RING_L + 1; j++) r_out[j] = 0xEE; r_res = qb_rb_chunk_read(&ring_rb, r_out, RING_L + 1, 0); }

void qb_verif_yield(int point)
{
	if (other_done || (uint32_t)point != in_point) return;
	other_done = 1;
#if MODE == 0
	do_write();
#else
	do_read();
#endif
}

static void check_chunk(const uint8_t *out, ssize_t res, const struct ghost_chunk *c, const char *unused)
{
	(void)unused;
	PROP(res == (ssize_t)c->len, "a read returns the length of the next written chunk (FIFO, exactly once)");
	for (uint32_t j = 0; j < RING_L + 1; j++) if (j < c->len) PROP(out[j] == c->b[j], "a read returns the bytes of the next written chunk (untorn, undamaged)");
}

void harness(void)
{
	IN(in_junk); IN(in_read_pt); IN(in_q); IN(in_len); IN(in_point); IN(in_payload);
	ASSUME(in_read_pt < RING_W);
	ASSUME(in_q.n <= RING_K);
	for (uint32_t i = 0; i < RING_K + 1; i++) ASSUME(in_q.c[i].len <= RING_L);
	ASSUME(ghost_words(&in_q) <= RING_W - 1);
	ASSUME(in_len <= RING_L);
	ASSUME(in_point >= 1 && in_point <= 14);

	for (int i = 0; i < RING_W; i++) ring_data[i] = in_junk.w[i];
	ring_build(RING_SEM ? QB_RB_FLAG_SHARED_THREAD : QB_RB_FLAG_NO_SEMAPHORE, in_read_pt, &in_q);
#if RING_SEM
	ring_rb.notifier.post_fn = st_post; ring_rb.notifier.q_len_fn = st_qlen;
	ring_rb.notifier.timedwait_fn = st_timedwait; ring_rb.notifier.reclaim_fn = st_reclaim;
	sem_count = (int32_t)in_q.n;
#endif

	/* the preempted party's operation (the other party runs inside it at in_point, or not at all) */
#if MODE == 0
	do_read();
	if (!other_done) { other_done = 1; do_write(); }     /* scheduling point not on the taken path: run it afterwards */
#else
	do_write();
	if (!other_done) { other_done = 1; do_read(); }
#endif
	WITNESS_BRANCH("both operations done");

	PROP(w_res == (ssize_t)in_len || w_res == -EAGAIN, "write returns len or -EAGAIN");
	/* expected delivery sequence: queued chunks, then the new chunk if accepted */
	struct ghost_chunk nc;
	nc.len = in_len;
	for (uint32_t j = 0; j < RING_L + 1; j++) nc.b[j] = in_payload.b[j];
	uint32_t total = in_q.n + (w_res == (ssize_t)in_len ? 1 : 0);
	uint32_t k = 0;
	if (r_res >= 0) {
		PROP(total >= 1, "a read never returns a chunk that was not written");
		if (total < 1) return;
		check_chunk(r_out, r_res, in_q.n > 0 ? &in_q.c[0] : &nc, "concurrent read");
		k = 1;
	} else {
		PROP(r_res == -ETIMEDOUT, "a read that finds nothing reports -ETIMEDOUT");
		PROP(in_q.n == 0, "a read does not miss a chunk that was completely written before it started");
	}
	/* drain */
	for (uint32_t i = 0; i < RING_K + 2; i++) {
		uint8_t out[RING_L + 1];
		ssize_t r = qb_rb_chunk_read(&ring_rb, out, RING_L + 1, 0);
		if (k < total) {
			PROP(r >= 0, "every successfully written chunk is returned by a later read");
			if (r < 0) return;
			check_chunk(out, r, k < in_q.n ? &in_q.c[k] : &nc, "drain");
			k++;
		} else {
			PROP(r == -ETIMEDOUT, "nothing is returned twice and nothing unwritten is returned");
		}
	}
	WITNESS("end");
}
