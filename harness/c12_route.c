/*
 * C12: log routing -- a message reaches exactly the enabled targets whose stored
 * filters select the call site, whatever the order of configuration and first use.
 *
 * Real code: lib/log.c (whole unit: qb_log_init, qb_log_filter_ctl2, _log_filter_store,
 * _log_filter_apply(_to_cs), _cs_matches_filter_, qb_log_callsite_get2,
 * qb_log_callsites_register, qb_log_real_va_, qb_log_from_external_source,
 * qb_log_custom_open/close, qb_log_ctl2, _log_target_state_set), lib/log_dcs.c (dynamic
 * call sites); qb_array is a contract model (see below).
 *
 * History = compile-time scenario over ALPHA (every history of NOPS operations is
 * generated), followed by a fixed epilogue: one log call from each of the three call
 * sites.  Reference model: per target {open, enabled, list of stored filters}, global
 * list of tag filters; a log call must invoke the recording logger of target t exactly
 * once if t is enabled and a stored filter of t matches the site (reference matcher
 * below, written from include/qb/qblog.h), and not at all otherwise; the tag value seen
 * by the logger is that of the last stored tag filter matching the site, else 0.
 *
 * Environment: syslog/stderr/blackbox open functions install the recording logger;
 * logging thread, format and clock functions are empty; regcomp/regexec follow the
 * contract "a pattern without metacharacters matches iff it is a substring";
 * vsnprintf writes a one-character message.
 */
#include "verif.h"
#include "seqenv.h"
#include <string.h>
#include <stdlib.h>
#include <stdio.h>
#include <stdarg.h>
#include <errno.h>
#include <regex.h>
#include <pthread.h>
#include "os_base.h"
/* struct qb_log_target carries two PATH_MAX-sized name buffers (32 targets = 256 KiB of state the property does not
 * depend on): the model build uses 4-byte names (the target name is "t", the file name of a custom target is written by the snprintf model) */
#undef PATH_MAX
#ifndef MODEL_PATH_MAX
#define MODEL_PATH_MAX 4
#endif
#define PATH_MAX MODEL_PATH_MAX
#include <qb/qbdefs.h>
#include <qb/qbutil.h>
#include <qb/qblog.h>
#include "log_int.h"

#ifndef NOPS
#define NOPS 3
#endif
#ifndef SC_BASE
#define SC_BASE 0
#endif

/* ---- libc models ---- */
static char *verif_strchrnul(const char *s, int c) { while (*s && *s != (char)c) s++; return (char *)s; }
static char *verif_strdup(const char *s)
{
	size_t n = 0;
	while (s[n]) n++;
	char *p = malloc(n + 1);
	ASSUME(p != NULL);
	for (size_t i = 0; i <= n; i++) p[i] = s[i];
	return p;
}
static char *verif_strstr(const char *h, const char *n)
{
	for (size_t i = 0; ; i++) {
		size_t j = 0;
		while (n[j] && h[i + j] == n[j]) j++;
		if (n[j] == 0) return (char *)&h[i];
		if (h[i] == 0) return NULL;
	}
}
static int verif_strcmp(const char *a, const char *b)
{
	size_t i = 0;
	while (a[i] && a[i] == b[i]) i++;
	return (unsigned char)a[i] - (unsigned char)b[i];
}
/* the two snprintf uses of lib/log.c: "%.*s" (token copy in _cs_matches_filter_) and "custom-%u" (target file name) */
static int verif_snprintf(char *buf, size_t size, const char *fmt, ...)
{
	va_list ap;
	int r = 0;
	va_start(ap, fmt);
	if (fmt[0] == '%' && fmt[1] == '.') {
		int n = va_arg(ap, int);
		const char *s = va_arg(ap, const char *);
		int i = 0;
		for (; i < n && s[i] && (size_t)i + 1 < size; i++) buf[i] = s[i];
		if (size) buf[i] = 0;
		r = i;
	} else if (size) {
		buf[0] = 'c'; if (size > 1) buf[1] = 0;
		r = 1;
	}
	va_end(ap);
	return r;
}
static int verif_vsnprintf(char *buf, size_t size, const char *fmt, va_list ap)
{ (void)fmt; (void)ap; if (size > 1) { buf[0] = 'm'; buf[1] = 0; return 1; } if (size) buf[0] = 0; return 1; }
/* the only strchr of lib/log.c looks for the extended-information marker QB_XC (\a) in the formatted message; the
 * message model above never contains it (a 512-byte buffer read through CBMC's strchr costs 7 s of solving per call) */
static char *verif_strchr(const char *s, int c)
{
	if (c == 7) return NULL;
	while (*s && *s != (char)c) s++;
	return *s == (char)c ? (char *)s : NULL;
}
/* regex contract: patterns used here have no metacharacters: match iff substring */
struct verif_regex { const char *pat; };
static int verif_regcomp(regex_t *r, const char *pat, int flags) { (void)flags; ((struct verif_regex *)r)->pat = pat; return 0; }
static int verif_regexec(const regex_t *r, const char *s, size_t n, regmatch_t *m, int flags)
{ (void)n; (void)m; (void)flags; return verif_strstr(s, ((const struct verif_regex *)r)->pat) ? 0 : REG_NOMATCH; }
static void verif_regfree(regex_t *r) { (void)r; }

#define strchrnul verif_strchrnul
#define strchr verif_strchr
#define strdup verif_strdup
#define strstr verif_strstr
#define strcmp verif_strcmp
#define snprintf verif_snprintf
#define vsnprintf verif_vsnprintf
#define regcomp verif_regcomp
#define regexec verif_regexec
#define regfree verif_regfree
#define pthread_rwlock_init(a, b) 0
#define pthread_rwlock_destroy(a) 0
#define pthread_rwlock_rdlock(a) 0
#define pthread_rwlock_wrlock(a) 0
#define pthread_rwlock_unlock(a) 0
#include "/repo/lib/strlcpy.c"
#include <qb/qbarray.h>
#include "/repo/lib/log_dcs.c"
#include "/repo/lib/log.c"
#undef strcmp
#undef strstr
#undef snprintf

/* qb_array is C19's subject; here it is its contract (stable addresses, zero-initialised elements, bins of 16
 * elements created on first touch, new-bin callback once per bin) over TYPED static storage: with the real
 * lib/array.c (calloc'ed byte bins, realloc'ed bin table) pointer comparisons such as 'cs < sect->stop' are not
 * simplified by symbolic execution and every loop over a call-site section is explored to the unwinding bound with
 * symbolic guards (no verdict in 300 s per scenario) */
#define MODEL_BINS 2
struct qb_array { int used[MODEL_BINS]; int is_cs; qb_array_new_bin_cb_fn cb; int live; };
static struct qb_array model_arr[2];
static int model_narr;
static struct qb_log_callsite model_cs[MODEL_BINS][16];
static struct callsite_list model_lk[MODEL_BINS][16];
qb_array_t *qb_array_create_2(size_t max_elements, size_t element_size, size_t autogrow_elements)
{
	(void)max_elements; (void)autogrow_elements;
	PROP(model_narr < 2, "env: array table large enough");
	PROP(element_size == sizeof(struct qb_log_callsite) || element_size == sizeof(struct callsite_list), "env: element type known to the model");
	struct qb_array *a = &model_arr[model_narr++];
	for (int i = 0; i < MODEL_BINS; i++) a->used[i] = 0;
	a->is_cs = (element_size == sizeof(struct qb_log_callsite)); a->cb = NULL; a->live = 1;
	return a;
}
int32_t qb_array_index(struct qb_array *a, int32_t idx, void **element_out)
{
	PROP(a != NULL && a->live, "env: index of a live array");
	PROP(idx >= 0 && idx < 16 * MODEL_BINS, "env: index inside the model array (2 bins)");
	int b = idx / 16;
	if (a->is_cs) *element_out = &model_cs[b][idx % 16]; else *element_out = &model_lk[b][idx % 16];
	if (!a->used[b]) {
		a->used[b] = 1;
		if (a->cb) a->cb(a, (uint32_t)b);
	}
	return 0;
}
size_t qb_array_num_bins_get(struct qb_array *a) { (void)a; return MODEL_BINS; }
size_t qb_array_elems_per_bin_get(struct qb_array *a) { (void)a; return 16; }
int32_t qb_array_new_bin_cb_set(struct qb_array *a, qb_array_new_bin_cb_fn fn) { a->cb = fn; return 0; }
void qb_array_free(struct qb_array *a) { a->live = 0; }

/* ---- recording logger ---- */
static int delivered[QB_LOG_TARGET_MAX];
static uint32_t seen_tags[QB_LOG_TARGET_MAX];
static void rec_logger(int32_t t, struct qb_log_callsite *cs, struct timespec *ts, const char *msg)
{
	(void)ts; (void)msg;
	if (t >= 0 && t < QB_LOG_TARGET_MAX) { delivered[t]++; seen_tags[t] = cs->tags; }
}

/* ---- environment of lib/log.c ---- */
int32_t qb_log_syslog_open(struct qb_log_target *t) { t->logger = rec_logger; return 0; }
int32_t qb_log_stderr_open(struct qb_log_target *t) { t->logger = rec_logger; return 0; }
int32_t qb_log_blackbox_open(struct qb_log_target *t) { t->logger = rec_logger; return 0; }
void qb_log_thread_stop(void) { }
void qb_log_thread_log_post(struct qb_log_callsite *cs, struct timespec *ts, const char *buffer) { (void)cs; (void)ts; (void)buffer; }
void qb_log_thread_pause(struct qb_log_target *t) { (void)t; }
void qb_log_thread_resume(struct qb_log_target *t) { (void)t; }
void qb_log_format_init(void) { }
void qb_log_format_fini(void) { }
void qb_log_format_set(int32_t t, const char *format) { (void)t; (void)format; }
void qb_util_timespec_from_epoch_get(struct timespec *ts) { ts->tv_sec = 0; ts->tv_nsec = 0; }

/* ---- call sites and filters of the scenario alphabet ---- */
struct site { const char *func, *file, *fmt; uint8_t prio; uint32_t line; };
static const struct site SITES[3] = {
	{ "f", "a.c", "x1", 6, 10 },
	{ "g", "b.c", "y",  3, 20 },
	{ "f", "a.c", "x1", 7, 10 },        /* same file, line and format as site 0, other priority (second entry of that line in log_dcs) */
};
struct filt { enum qb_log_filter_type type; const char *text; uint8_t lo; };
static const struct filt FILTS[7] = {
	{ QB_LOG_FILTER_FILE,       "a.c", 7 },      /* sites 0, 2 */
	{ QB_LOG_FILTER_FILE,       "*",   4 },      /* site 1 (priority window) */
	{ QB_LOG_FILTER_FUNCTION,   "g,f", 6 },      /* sites 0, 1 (site 2 has the same function but priority 7) */
	{ QB_LOG_FILTER_FORMAT,     "x",   7 },      /* sites 0, 2 */
	{ QB_LOG_FILTER_FILE_REGEX, "b",   7 },      /* site 1 */
	{ QB_LOG_FILTER_FORMAT,     "*",   7 },      /* everything */
	{ QB_LOG_FILTER_FILE,       "*",   6 },      /* what qb_log_init stores for syslog: everything up to LOG_INFO */
};

/* reference matcher (include/qb/qblog.h: priority window, '*', exact file / function with comma alternatives,
 * format substring, regular expression) */
static int ref_streq_tok(const char *tok, size_t n, const char *s)
{ size_t i = 0; for (; i < n; i++) if (s[i] != tok[i] || s[i] == 0) return 0; return s[n] == 0; }
static int ref_match(const struct filt *f, const struct site *s)
{
	if (s->prio > f->lo) return 0;
	if (f->text[0] == '*' && f->text[1] == 0) return 1;
	const char *subj = (f->type == QB_LOG_FILTER_FILE || f->type == QB_LOG_FILTER_FILE_REGEX) ? s->file :
		(f->type == QB_LOG_FILTER_FUNCTION || f->type == QB_LOG_FILTER_FUNCTION_REGEX) ? s->func : s->fmt;
	if (f->type == QB_LOG_FILTER_FILE || f->type == QB_LOG_FILTER_FUNCTION) {
		const char *p = f->text;
		for (;;) {
			size_t n = 0;
			while (p[n] && p[n] != ',') n++;
			if (ref_streq_tok(p, n, subj)) return 1;
			if (p[n] == 0) return 0;
			p += n + 1;
		}
	}
	/* substring (FORMAT, and the regex contract of this environment) */
	for (size_t i = 0; ; i++) {
		size_t j = 0;
		while (f->text[j] && subj[i + j] == f->text[j]) j++;
		if (f->text[j] == 0) return 1;
		if (subj[i] == 0) return 0;
	}
}

/* ---- reference model ---- */
#define MT 2                         /* modelled targets: 0 = syslog (opened and enabled by qb_log_init), 1 = custom target A */
#define MAXF 6
struct mtarget { int slot; int open; int enabled; int nf; int f[MAXF]; };
static struct mtarget M[MT];
static int m_ntag, m_tagf[MAXF];
static uint32_t m_tagv[MAXF];

static int m_selects(const struct mtarget *t, const struct site *s)
{ for (int i = 0; i < t->nf; i++) if (ref_match(&FILTS[t->f[i]], s)) return 1; return 0; }
static uint32_t m_tag(const struct site *s)
{ uint32_t v = 0; for (int i = 0; i < m_ntag; i++) if (ref_match(&FILTS[m_tagf[i]], s)) v = m_tagv[i]; return v; }

static int site_known[3];    /* the site has been executed at least once (the library keeps a call-site record) */
static int kf_site[3];       /* known finding C12-remove-overlap: routing of (target A, site) is left undecided */
static void do_log(int si)
{
	const struct site *s = &SITES[si];
	int before[MT];
	for (int k = 0; k < MT; k++) before[k] = M[k].open ? delivered[M[k].slot] : 0;
	qb_log_from_external_source(s->func, s->file, s->fmt, s->prio, s->line, 0, 0);
	site_known[si] = 1;
	for (int k = 0; k < MT; k++) {
		if (!M[k].open) continue;
		int got = delivered[M[k].slot] - before[k];
		int want = M[k].enabled && m_selects(&M[k], s);
#ifdef KF_C12_REMOVE_OVERLAP
		if (k == 1 && kf_site[si]) continue;
#endif
		if (want) {
			PROP(got >= 1, "a call selected by a stored filter of an enabled target is delivered to it");
			PROP(got <= 1, "each selected target receives the message exactly once per call");
			if (got == 1) PROP(seen_tags[M[k].slot] == m_tag(s), "the tag reported with the message is the one the stored tag filters select");
		} else {
			PROP(got == 0, "a call is not delivered to a target that is disabled or whose stored filters do not select the site");
		}
	}
}

static void m_add(struct mtarget *t, int fi)
{
	for (int i = 0; i < t->nf; i++) if (t->f[i] == fi) return;      /* same filter twice: -EEXIST, nothing changes */
	if (t->nf < MAXF) t->f[t->nf++] = fi;
}
static void m_remove(struct mtarget *t, int fi)
{
	/* documented removal: the stored filter of that type and text inside the given priority window */
	for (int i = 0; i < t->nf; i++) {
		if (t->f[i] == fi) {
			for (int j = i; j + 1 < t->nf; j++) t->f[j] = t->f[j + 1];
			t->nf--;
			return;
		}
	}
}

static void flt(struct mtarget *t, enum qb_log_filter_conf c, int fi, int expect_rc)
{
	int32_t rc = qb_log_filter_ctl(t->slot, c, FILTS[fi].type, FILTS[fi].text, FILTS[fi].lo);
	PROP(rc == expect_rc, "filter_ctl return value");
}

struct opdef { uint8_t kind, arg; };
static const struct opdef ALPHA[] = {
	{ 0, 0 },   /*  0 log from site 0 */
	{ 1, 0 },   /*  1 log from all three sites */
	{ 2, 1 },   /*  2 enable A */
	{ 2, 0 },   /*  3 disable A */
	{ 3, 0 },   /*  4 A: add FILE "a.c" */
	{ 4, 0 },   /*  5 A: remove FILE "a.c" */
	{ 6, 0 },   /*  6 close A and open a new custom target */
	{ 3, 2 },   /*  7 A: add FUNCTION "g,f" */
#if ALPHABET >= 2
	{ 3, 1 },   /*  8 A: add FILE "*" <= 4 */
	{ 7, 0 },   /*  9 tag 5 on FILE "a.c" */
	{ 5, 0 },   /* 10 A: clear all filters */
	{ 3, 3 },   /* 11 A: add FORMAT "x" */
#endif
#if ALPHABET >= 3
	{ 3, 4 },   /* 12 A: add FILE_REGEX "b" */
	{ 3, 5 },   /* 13 A: add FORMAT "*" */
	{ 8, 0 },   /* 14 clear all tags */
	{ 9, 0 },   /* 15 syslog: disable */
	{ 4, 3 },   /* 16 A: remove FORMAT "x" */
	{ 0, 1 },   /* 17 log from site 1 */
#endif
};
#define NALPHA ((int)(sizeof ALPHA / sizeof ALPHA[0]))

static void do_op(const struct opdef *o)
{
	struct mtarget *A = &M[1];
	switch (o->kind) {
	case 0: do_log(o->arg); break;
	case 1: do_log(0); do_log(1); do_log(2); break;
	case 2: {
		int32_t rc = qb_log_ctl(A->slot, QB_LOG_CONF_ENABLED, o->arg);
		PROP(rc == 0, "enable/disable of an open target succeeds");
		A->enabled = o->arg;
		break; }
	case 3: {
		int dup = 0;
		for (int i = 0; i < A->nf; i++) if (A->f[i] == o->arg) dup = 1;
		flt(A, QB_LOG_FILTER_ADD, o->arg, dup ? -EEXIST : 0);
		m_add(A, o->arg);
		break; }
	case 4: {
#ifdef KF_C12_REMOVE_OVERLAP
		/* known finding: a removal whose text matches a known site that another stored filter of the target still
		 * selects, or under which nothing is stored: the library clears the site's bit, later sites get it */
		{
			int stored = 0;
			for (int i = 0; i < A->nf; i++) if (A->f[i] == o->arg) stored = 1;
			for (int si = 0; si < 3; si++) {
				if (!site_known[si] || !ref_match(&FILTS[o->arg], &SITES[si])) continue;
				int other = 0;
				for (int i = 0; i < A->nf; i++) if (A->f[i] != o->arg && ref_match(&FILTS[A->f[i]], &SITES[si])) other = 1;
				if (!stored || other) kf_site[si] = 1;
			}
		}
#endif
		flt(A, QB_LOG_FILTER_REMOVE, o->arg, 0);
		m_remove(A, o->arg);
		break; }
	case 5: {
		int32_t rc = qb_log_filter_ctl(A->slot, QB_LOG_FILTER_CLEAR_ALL, QB_LOG_FILTER_FILE, "*", 7);
		PROP(rc == 0, "filter_ctl return value");
		A->nf = 0;
		break; }
	case 6: {
		qb_log_custom_close(A->slot);
		int32_t slot = qb_log_custom_open(rec_logger, NULL, NULL, NULL);
		PROP(slot >= QB_LOG_TARGET_DYNAMIC_START && slot < QB_LOG_TARGET_MAX, "custom_open returns a dynamic slot");
		A->slot = slot; A->open = 1; A->enabled = 0; A->nf = 0;       /* a new target: disabled, no filters of its own */
		break; }
	case 7: {
		int dup = 0;
		for (int i = 0; i < m_ntag; i++) if (m_tagf[i] == 0 && m_tagv[i] == 5) dup = 1;
		int32_t rc = qb_log_filter_ctl(5, QB_LOG_TAG_SET, FILTS[0].type, FILTS[0].text, FILTS[0].lo);
		PROP(rc == (dup ? -EEXIST : 0), "tag filter_ctl return value");
		if (!dup && m_ntag < MAXF) { m_tagf[m_ntag] = 0; m_tagv[m_ntag] = 5; m_ntag++; }
		break; }
	case 8: {
		int32_t rc = qb_log_filter_ctl(0, QB_LOG_TAG_CLEAR_ALL, QB_LOG_FILTER_FILE, "*", 7);
		PROP(rc == 0, "tag filter_ctl return value");
		m_ntag = 0;
		break; }
	case 9: {
		int32_t rc = qb_log_ctl(QB_LOG_SYSLOG, QB_LOG_CONF_ENABLED, 0);
		PROP(rc == 0, "enable/disable of an open target succeeds");
		M[0].enabled = 0;
		break; }
	}
}

static void harness_scenario(int s0)
{
	int ops[NOPS];
	int r = s0 + SC_BASE;
	for (int n = NOPS - 1; n >= 0; n--) { ops[n] = r % NALPHA; r /= NALPHA; }
	PROP(r == 0, "harness: scenario index within range");

	qb_log_init("t", LOG_USER, LOG_INFO);
#ifdef SITE_BASE
	/* state construction: SITE_BASE dynamic call sites were created (and are of no further interest) before the history
	 * starts, so that the three sites of the scenario land on the last slot of a 16-element bin / across two bins */
	callsite_arr_next = SITE_BASE;
#endif
	/* syslog: opened, enabled, FILE "*" up to LOG_INFO (what qb_log_init documents) */
	M[0].slot = QB_LOG_SYSLOG; M[0].open = 1; M[0].enabled = 1; M[0].nf = 1; M[0].f[0] = 6;
	int32_t slot = qb_log_custom_open(rec_logger, NULL, NULL, NULL);
	PROP(slot >= QB_LOG_TARGET_DYNAMIC_START && slot < QB_LOG_TARGET_MAX, "custom_open returns a dynamic slot");
	M[1].slot = slot; M[1].open = 1; M[1].enabled = 0; M[1].nf = 0;

#ifdef PRELOAD_ENABLED
	do_op(&ALPHA[2]);               /* constant prefix: the target is enabled before anything else happens */
#endif
#ifdef PRELOAD_KNOWN
	do_op(&ALPHA[1]);               /* ... and every call site has been executed once */
#endif
	for (int n = 0; n < NOPS; n++) do_op(&ALPHA[ops[n]]);
	/* epilogue: one call from every site */
	do_log(0); do_log(1); do_log(2);
	WITNESS("scenario executed");
}
