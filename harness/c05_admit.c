/*
 * C05: admission -- credentials reach the accept callback unchanged, a refusal leaves
 * nothing behind, files of an accepted connection carry the authorised owner and mode.
 *
 * Real code: lib/ipc_setup.c (qb_ipc_auth_creds, handle_new_connection, remove_tempdir,
 * qb_ipc_us_send), lib/ipcs.c (connection alloc / unref / disconnect,
 * qb_ipcs_connection_auth_set), lib/ipc_shm.c server side (qb_ipcs_shm_connect,
 * qb_ipcs_shm_rb_open, qb_ipcs_shm_disconnect).
 *
 * Part A (PART=1): qb_ipc_auth_creds on a received message whose ancillary buffer holds
 * one SCM_CREDENTIALS record with ARBITRARY pid/uid/gid (optionally behind a record of
 * another type): the extracted credentials are the kernel-reported ones.
 *
 * Part B (PART=2): one handle_new_connection() with ARBITRARY peer credentials, accept
 * verdict (0 or any negative error code), optional qb_ipcs_connection_auth_set() with
 * ARBITRARY uid/gid/mode inside the accept callback, and an arbitrary failure point in the
 * transport (k-th ring cannot be opened / chown'ed / chmod'ed, main loop refuses the
 * descriptor), over a ghost file system: mkdtemp/chmod/chown/rmdir and the ring
 * open/chown/chmod/close calls record owner and mode of every object over its whole life.
 */
#include "os_base.h"
#include "verif.h"
#include "seqenv.h"
#include "nolog.h"
#include <string.h>
#include <stdlib.h>
#include <stdio.h>
#include <stdarg.h>
#include <errno.h>
#include <unistd.h>
#include <poll.h>
#include <signal.h>
#include <setjmp.h>
#include <sys/types.h>
#include <sys/socket.h>
#include <sys/stat.h>
#include <sys/un.h>

#ifndef PART
#define PART 2
#endif

/* ---- ghost file system ---- */
#define DIRPATH "/d/q-X"
struct gobj { int exists, ever; uid_t uid; gid_t gid; mode_t mode; mode_t mode_or; int removed; };
static struct gobj gdir;
static struct gobj gring[3];
static int nring_opened, nring_open_calls;
static int other_path_ops;
static int is_dir_path(const char *p) { const char *d = DIRPATH; int i = 0; for (; i < 7 && d[i]; i++) if (p[i] != d[i]) return 0; return p[i] == 0; }

static ssize_t verif_send(int fd, const void *buf, size_t n, int flags);
static int fd_closed[16], fd_dispatch_del[16], fd_del_before_close = 1;
static int verif_close(int fd) { if (fd >= 0 && fd < 16) { fd_closed[fd]++; if (!fd_dispatch_del[fd]) fd_del_before_close = 0; } return 0; }
static int eof_on_recv;
static ssize_t verif_recv(int fd, void *buf, size_t n, int flags) { (void)fd; (void)buf; (void)n; (void)flags; if (eof_on_recv) return 0; errno = EAGAIN; return -1; }
static int verif_shutdown(int fd, int how) { (void)fd; (void)how; return 0; }
static int verif_setsockopt(int fd, int l, int n, const void *v, socklen_t len) { (void)fd; (void)l; (void)n; (void)v; (void)len; return 0; }
static char *verif_mkdtemp(char *t)
{
	PROP(!gdir.ever, "harness: one temporary directory per connection");
	gdir.exists = 1; gdir.ever = 1; gdir.uid = 0; gdir.gid = 0; gdir.mode = 0700; gdir.mode_or = 0700;    /* mkdtemp(3): mode 0700, owner = server */
	return t;
}
static int verif_chmod(const char *p, mode_t m)
{ if (is_dir_path(p) && gdir.exists) { gdir.mode = m; gdir.mode_or |= m; } else other_path_ops++; return 0; }
static int verif_chown(const char *p, uid_t u, gid_t g)
{ if (is_dir_path(p) && gdir.exists) { gdir.uid = u; gdir.gid = g; } else other_path_ops++; return 0; }
static int verif_rmdir(const char *p)
{
	if (is_dir_path(p) && gdir.exists) {
		for (int i = 0; i < 3; i++) if (gring[i].exists) { errno = ENOTEMPTY; return -1; }
		gdir.exists = 0; gdir.removed++;
		return 0;
	}
	errno = ENOENT; return -1;
}
static int verif_snprintf(char *buf, size_t size, const char *fmt, ...)
{ (void)fmt; if (size > 8) { memcpy(buf, DIRPATH, 7); return 6; } if (size) buf[0] = 0; return 6; }
static char *verif_strrchr(const char *s, int c)
{ const char *r = NULL; for (int i = 0; i < 16 && s[i]; i++) if (s[i] == (char)c) r = &s[i]; return (char *)r; }
static int verif_getsockname(int fd, struct sockaddr *a, socklen_t *l) { (void)fd; (void)a; (void)l; errno = ENOTSOCK; return -1; }
static int verif_sigaction(int sig, const struct sigaction *a, struct sigaction *o) { (void)sig; (void)a; (void)o; return 0; }
#define send verif_send
#define close verif_close
#define recv verif_recv
#define shutdown verif_shutdown
#define setsockopt verif_setsockopt
#define mkdtemp verif_mkdtemp
#define chmod verif_chmod
#define chown verif_chown
#define rmdir verif_rmdir
#define snprintf verif_snprintf
#define strrchr verif_strrchr
#define getsockname verif_getsockname
#define sigaction(a, b, c) verif_sigaction(a, b, c)
#define sigemptyset(x) 0
#undef setjmp
#define setjmp(x) 0                       /* the SIGBUS guard of qb_ipcs_shm_disconnect: no signal in this model */
#include "/repo/lib/strlcpy.c"
#include "/repo/lib/ipc_setup.c"
#include "/repo/lib/ipcs.c"
#include "/repo/lib/ipc_shm.c"
#undef close
#undef snprintf
#undef send
void qb_sigpipe_ctl(enum qb_sigpipe_ctl ctl) { (void)ctl; }
void qb_socket_nosigpipe(int32_t s) { (void)s; }
int32_t qb_sys_fd_nonblock_cloexec_set(int32_t fd) { (void)fd; return 0; }
void qb_ipcs_us_init(struct qb_ipcs_service *s) { (void)s; }
int use_filesystem_sockets(void) { return 0; }

/* ---- inputs ---- */
uint32_t in_uid, in_gid, in_pid;
int32_t in_verdict;
uint8_t in_set_auth;
uint32_t in_auid, in_agid, in_amode;
uint8_t in_fail_at;           /* 0: no transport failure; 1..3: k-th qb_rb_open fails; 4..6: k-th chown fails; 7..9: k-th chmod fails; 10: dispatch_add fails;
                                 11: everything came up but the handshake reply cannot be sent (EPIPE: the client died meanwhile) */
uint8_t in_other_first;       /* part A: a record of another type precedes the credentials */

/* ---- ring stubs: contract of qb_rb_open(CREATE) = files created with mode 0600, owned by the creator ---- */
static struct qb_ringbuffer_shared_s ring_hdr[3];
static struct qb_ringbuffer_s ring_obj[3];
static int ring_index(qb_ringbuffer_t *rb) { for (int i = 0; i < 3; i++) if (rb == &ring_obj[i]) return i; return -1; }
qb_ringbuffer_t *qb_rb_open(const char *name, size_t size, uint32_t flags, size_t shared_user_data_size)
{
	(void)name; (void)size; (void)shared_user_data_size;
	nring_open_calls++;
	PROP(flags & QB_RB_FLAG_CREATE, "server creates the rings");
	if (in_fail_at == nring_open_calls) { errno = ENOMEM; return NULL; }
	PROP(nring_opened < 3, "at most three rings per connection");
	int i = nring_opened++;
	gring[i].exists = 1; gring[i].ever = 1; gring[i].uid = 0; gring[i].gid = 0; gring[i].mode = 0600; gring[i].mode_or = 0600;
	ring_obj[i].shared_hdr = &ring_hdr[i];
	ring_hdr[i].ref_count = 1;
	return &ring_obj[i];
}
int32_t qb_rb_chown(qb_ringbuffer_t *rb, uid_t owner, gid_t group)
{
	int i = ring_index(rb);
	PROP(i >= 0 && gring[i].exists, "chown of an open ring");
	if (i < 0) return -EINVAL;
	if (in_fail_at == 4 + i) return -EPERM;
	gring[i].uid = owner; gring[i].gid = group;
	return 0;
}
int32_t qb_rb_chmod(qb_ringbuffer_t *rb, mode_t mode)
{
	int i = ring_index(rb);
	PROP(i >= 0 && gring[i].exists, "chmod of an open ring");
	if (i < 0) return -EINVAL;
	if (in_fail_at == 7 + i) return -EPERM;
	gring[i].mode = mode; gring[i].mode_or |= mode;
	return 0;
}
void qb_rb_close(qb_ringbuffer_t *rb)
{
	if (rb == NULL) return;
	int i = ring_index(rb);
	PROP(i >= 0 && gring[i].exists, "close of an open ring, once");
	if (i >= 0) { gring[i].exists = 0; gring[i].removed++; }      /* the creator unlinks the files */
}
void qb_rb_force_close(qb_ringbuffer_t *rb) { qb_rb_close(rb); }
void *qb_rb_shared_user_data_get(qb_ringbuffer_t *rb) { static int32_t fc; (void)rb; return &fc; }
#ifndef QLEN
#define QLEN 0            /* requests still queued in the request ring when the client dies */
#endif
ssize_t qb_rb_chunks_used(qb_ringbuffer_t *rb) { (void)rb; return QLEN; }

/* ---- service callbacks ---- */
static int accept_calls, created_calls, destroyed_calls, msg_calls;
static uid_t seen_uid; static gid_t seen_gid;
static int32_t s_accept(qb_ipcs_connection_t *c, uid_t u, gid_t g)
{
	accept_calls++; seen_uid = u; seen_gid = g;
	PROP(nring_open_calls == 0, "the accept callback runs before any channel is created");
	if (in_set_auth & 1) qb_ipcs_connection_auth_set(c, in_auid, in_agid, in_amode);
	return in_verdict;
}
static void s_created(qb_ipcs_connection_t *c) { (void)c; created_calls++; }
static int32_t s_msg(qb_ipcs_connection_t *c, void *d, size_t n) { (void)c; (void)d; (void)n; msg_calls++; return 0; }
static int closed_calls, closed_after_destroyed, rings_open_at_destroyed;
static int32_t s_closed(qb_ipcs_connection_t *c) { (void)c; closed_calls++; if (destroyed_calls) closed_after_destroyed = 1; return 0; }
static void s_destroyed(qb_ipcs_connection_t *c) { (void)c; destroyed_calls++; }
static int32_t p_dispatch_add(enum qb_loop_priority p, int32_t fd, int32_t ev, void *d, qb_ipcs_dispatch_fn_t fn)
{ (void)p; (void)fd; (void)ev; (void)d; (void)fn; return in_fail_at == 10 ? -ENOMEM : 0; }
static int32_t p_dispatch_mod(enum qb_loop_priority p, int32_t fd, int32_t ev, void *d, qb_ipcs_dispatch_fn_t fn) { (void)p; (void)fd; (void)ev; (void)d; (void)fn; return 0; }
static int32_t p_dispatch_del(int32_t fd) { if (fd >= 0 && fd < 16) fd_dispatch_del[fd]++; return 0; }
static int32_t p_job_add(enum qb_loop_priority p, void *data, qb_loop_job_dispatch_fn fn) { (void)p; (void)data; (void)fn; return 0; }

static struct { struct qb_ipc_response_header hdr; } sent;
static int sent_n;
static ssize_t verif_send(int fd, const void *buf, size_t n, int flags)
{
	(void)fd; (void)flags;
	/* only the header of the 12 KiB response is of interest here */
	if (n == sizeof(struct qb_ipc_connection_response)) {
		sent.hdr = *(const struct qb_ipc_response_header *)buf; sent_n++;
		if (in_fail_at == 11) { errno = EPIPE; return -1; }          /* the client died while waiting for the reply */
	}
	return (ssize_t)n;
}

#if PART == 1
#ifdef VERIF_CBMC
/* glibc's CMSG_NXTHDR is an out-of-line libc function without a body for CBMC: its published definition (bits/socket.h) */
struct cmsghdr *__cmsg_nxthdr(struct msghdr *mhdr, struct cmsghdr *cmsg)
{
	if ((size_t)cmsg->cmsg_len < sizeof(struct cmsghdr)) return NULL;
	cmsg = (struct cmsghdr *)((unsigned char *)cmsg + CMSG_ALIGN(cmsg->cmsg_len));
	if ((unsigned char *)(cmsg + 1) > ((unsigned char *)mhdr->msg_control + mhdr->msg_controllen)
	    || ((unsigned char *)cmsg + CMSG_ALIGN(cmsg->cmsg_len) > ((unsigned char *)mhdr->msg_control + mhdr->msg_controllen)))
		return NULL;
	return cmsg;
}
#endif
void harness(void)
{
	IN(in_uid); IN(in_gid); IN(in_pid); IN(in_other_first);
	static union { struct cmsghdr h; char b[CMSG_SPACE(sizeof(int)) + CMSG_SPACE(sizeof(struct ucred))]; } ctl;
	struct ipc_auth_data data;
	struct ucred cred;
	memset(&data, 0, sizeof data);
	memset(&ctl, 0, sizeof ctl);
	cred.pid = (pid_t)in_pid; cred.uid = in_uid; cred.gid = in_gid;
	data.msg_recv.msg_control = ctl.b;
	struct cmsghdr *cm;
	if (in_other_first & 1) {
		data.msg_recv.msg_controllen = CMSG_SPACE(sizeof(int)) + CMSG_SPACE(sizeof(struct ucred));
		cm = CMSG_FIRSTHDR(&data.msg_recv);
		cm->cmsg_level = SOL_SOCKET; cm->cmsg_type = SCM_RIGHTS; cm->cmsg_len = CMSG_LEN(sizeof(int));
		cm = (struct cmsghdr *)(ctl.b + CMSG_SPACE(sizeof(int)));
	} else {
		data.msg_recv.msg_controllen = CMSG_SPACE(sizeof(struct ucred));
		cm = CMSG_FIRSTHDR(&data.msg_recv);
	}
	cm->cmsg_level = SOL_SOCKET; cm->cmsg_type = SCM_CREDENTIALS; cm->cmsg_len = CMSG_LEN(sizeof(struct ucred));
	memcpy(CMSG_DATA(cm), &cred, sizeof cred);
	data.ugp.uid = 12345; data.ugp.gid = 12345; data.ugp.pid = 1;
	int32_t r = qb_ipc_auth_creds(&data);
	PROP(r == 0, "credentials found in the ancillary data");
	PROP(data.ugp.uid == in_uid && data.ugp.gid == in_gid && data.ugp.pid == (pid_t)in_pid, "the credentials used for admission are the kernel-reported ones");
	WITNESS("auth_creds returned");
}
#elif PART == 2
void harness(void)
{
	IN(in_uid); IN(in_gid); IN(in_pid); IN(in_verdict); IN(in_set_auth); IN(in_auid); IN(in_agid); IN(in_amode); IN(in_fail_at);
#ifdef FAIL_AT
	in_fail_at = FAIL_AT;                            /* obligation constant: the failure point of the transport */
#endif
#ifdef SET_AUTH
	in_set_auth = SET_AUTH;
#endif
	ASSUME(in_verdict <= 0);                         /* documented: 0 or a negative errno */
	ASSUME(in_fail_at <= 11);
	ASSUME((in_amode & ~0777u) == 0);

	struct qb_ipcs_service *svc = calloc(1, sizeof *svc);
	ASSUME(svc != NULL);
	svc->type = QB_IPC_SHM; svc->server_sock = 3; svc->pid = 1; svc->ref_count = 1; svc->max_buffer_size = 64;
	svc->name[0] = 's';
	svc->serv_fns.connection_accept = s_accept; svc->serv_fns.connection_created = s_created;
	svc->serv_fns.msg_process = s_msg; svc->serv_fns.connection_closed = s_closed; svc->serv_fns.connection_destroyed = s_destroyed;
	qb_ipcs_shm_init(svc);                           /* the real shared-memory transport table */
	svc->poll_fns.dispatch_add = p_dispatch_add; svc->poll_fns.dispatch_mod = p_dispatch_mod;
	svc->poll_fns.dispatch_del = p_dispatch_del; svc->poll_fns.job_add = p_job_add;
	qb_list_init(&svc->connections);

	struct qb_ipc_connection_request req;
	struct ipc_auth_ugp ugp;
	memset(&req, 0, sizeof req);
	req.hdr.id = QB_IPC_MSG_AUTHENTICATE; req.hdr.size = sizeof req; req.max_msg_size = 64;
	ugp.pid = (pid_t)in_pid; ugp.uid = in_uid; ugp.gid = in_gid;

	int32_t r = handle_new_connection(svc, 0, 10, &req, sizeof req, &ugp);

	uid_t want_uid = (in_set_auth & 1) ? in_auid : in_uid;
	gid_t want_gid = (in_set_auth & 1) ? in_agid : in_gid;
	mode_t want_mode = (in_set_auth & 1) ? (mode_t)in_amode : 0600;

	PROP(accept_calls == 1, "the accept callback is asked exactly once");
	PROP(seen_uid == in_uid && seen_gid == in_gid, "the accept callback sees the peer's credentials");
	PROP(sent_n == 1, "exactly one response is sent to the client");
	if (in_fail_at != 11) PROP(sent.hdr.error == r, "the client is told the outcome the server acted on");
	if (in_verdict != 0) {
		PROP(r == in_verdict, "a refusal is reported with the accept callback's error code");
		PROP(nring_open_calls == 0, "a refused client gets no channel");
		PROP(created_calls == 0 && msg_calls == 0, "nothing of a refused client reaches the created / message callbacks");
		PROP(qb_list_empty(&svc->connections), "a refused client is not in the connection list");
	}
	if (r != 0) {
		/* refused, or the transport failed: nothing may remain */
		for (int i = 0; i < 3; i++) PROP(!gring[i].exists, "no shared file remains after a failed connect");
		PROP(!gdir.exists, "no directory remains after a failed connect");
		PROP(created_calls == 0, "created is not reported for a failed connect");
	} else {
		PROP(in_verdict == 0 && in_fail_at != 1 && in_fail_at != 2 && in_fail_at != 3 && in_fail_at != 10 && in_fail_at != 11, "success only if accepted, the transport came up and the reply went out");
		PROP(nring_opened == 3, "three channels");
		for (int i = 0; i < 3; i++) {
			PROP(gring[i].exists, "channel file exists");
			PROP(gring[i].uid == want_uid && gring[i].gid == want_gid, "channel files are owned by the authorised user and group");
			PROP(gring[i].mode == want_mode, "channel files carry the authorised mode");
		}
		PROP(gdir.exists && gdir.uid == want_uid && gdir.gid == want_gid, "the connection's directory is owned by the authorised user and group");
	}
	for (int i = 0; i < 3; i++)
		PROP((gring[i].mode_or & ~(want_mode | 0600)) == 0, "a channel file is never more permissive than creation mode 0600 / the authorised mode");
	PROP((gdir.mode_or & 0007) == 0, "the connection's directory is never accessible to others");
	PROP(other_path_ops == 0, "no chmod/chown on a path other than the connection's directory");
	WITNESS("handle_new_connection returned");
	if (r == 0) WITNESS("accepted path");
	if (in_verdict != 0) WITNESS("refused path");
}
#else
/*
 * PART 3 (property C03, server side): the client of an established shared-memory connection
 * dies.  DEATH = 1: the loop reports POLLHUP; 2: POLLIN with end-of-file on the setup socket;
 * 3: POLLNVAL.  APP_REF = 1: the application holds a reference of its own and drops it later.
 * FC: request flow control (rate limit OFF) is on at that moment; QLEN: requests still queued (POLLHUP / POLLNVAL only).
 */
#ifndef DEATH
#define DEATH 1
#endif
#ifndef APP_REF
#define APP_REF 0
#endif
static struct qb_ipcs_connection *conn0;
static int32_t s_accept3(qb_ipcs_connection_t *c, uid_t u, gid_t g) { (void)u; (void)g; conn0 = c; return 0; }
void harness(void)
{
	IN(in_uid); IN(in_gid); IN(in_pid);
	in_fail_at = 0;
	struct qb_ipcs_service *svc = calloc(1, sizeof *svc);
	ASSUME(svc != NULL);
	svc->type = QB_IPC_SHM; svc->server_sock = 3; svc->pid = 1; svc->ref_count = 1; svc->max_buffer_size = 64;
	svc->name[0] = 's';
	svc->serv_fns.connection_accept = s_accept3; svc->serv_fns.connection_created = s_created;
	svc->serv_fns.msg_process = s_msg; svc->serv_fns.connection_closed = s_closed; svc->serv_fns.connection_destroyed = s_destroyed;
	qb_ipcs_shm_init(svc);
	svc->poll_fns.dispatch_add = p_dispatch_add; svc->poll_fns.dispatch_mod = p_dispatch_mod;
	svc->poll_fns.dispatch_del = p_dispatch_del; svc->poll_fns.job_add = p_job_add;
	qb_list_init(&svc->connections);

	struct qb_ipc_connection_request req;
	struct ipc_auth_ugp ugp;
	memset(&req, 0, sizeof req);
	req.hdr.id = QB_IPC_MSG_AUTHENTICATE; req.hdr.size = sizeof req; req.max_msg_size = 64;
	ugp.pid = (pid_t)in_pid; ugp.uid = in_uid; ugp.gid = in_gid;
	int32_t r = handle_new_connection(svc, 0, 10, &req, sizeof req, &ugp);
	PROP(r == 0 && conn0 != NULL && created_calls == 1 && nring_opened == 3 && gdir.exists, "harness: connection established over three rings");
	if (r != 0 || conn0 == NULL) return;
	if (APP_REF) qb_ipcs_connection_ref(conn0);
#ifdef FC
	qb_ipcs_request_rate_limit(svc, QB_IPCS_RATE_OFF);          /* request flow control is on when the client dies */
#endif

	/* the client process dies */
	int32_t dr;
	if (DEATH == 1) dr = qb_ipcs_dispatch_connection_request(10, POLLHUP, conn0);
	else if (DEATH == 2) { eof_on_recv = 1; dr = qb_ipcs_dispatch_connection_request(10, POLLIN, conn0); }
	else dr = qb_ipcs_dispatch_connection_request(10, POLLNVAL, conn0);
	PROP(dr != 0, "the dispatcher reports the dead peer (the loop drops the descriptor)");
	PROP(closed_calls == 1, "closed is invoked once the death is noticed (the connection had been reported as created)");
	PROP(msg_calls == 0, "no message callback for a dead client");
	if (APP_REF) {
		PROP(destroyed_calls == 0, "not destroyed while the application holds a reference");
		qb_ipcs_connection_unref(conn0);
	}
	PROP(destroyed_calls == 1, "destroyed exactly once");
	PROP(!closed_after_destroyed, "closed precedes destroyed");
	for (int i = 0; i < 3; i++) {
		PROP(!gring[i].exists, "every shared-memory file of the dead client is released");
		PROP(gring[i].removed == 1, "each ring is closed exactly once");
	}
	PROP(!gdir.exists, "the temporary directory of the dead client is removed");
	PROP(fd_closed[10] == 1, "the dead client's descriptor is closed exactly once");
	PROP(fd_dispatch_del[10] >= 1 && fd_del_before_close, "the descriptor leaves the main loop before it is closed");
	PROP(qb_list_empty(&svc->connections), "the dead connection is no longer listed");
	PROP(svc->ref_count == 1, "the service survives with exactly its creator's reference");
	WITNESS("death handled");
}
#endif
