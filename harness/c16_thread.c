/*
 * C16: threaded logging, decided at critical-section granularity (mode S of DESIGN
 * 2.1: CBMC's thread mode rejects this unit).
 *
 * Real code: lib/log_thread.c (qb_log_thread_start, qb_log_thread_log_post,
 * qb_logt_worker_thread, qb_log_thread_stop, pause/resume).
 *
 * Actors are interleaved by the scenario (compile-time history over ALPHA, all
 * histories generated): every step is one REAL library call:
 *   S  qb_log_thread_start()          P  producer posts the next message (sequence number in the text)
 *   W  one iteration of the real worker loop (only when the semaphore is > 0, i.e. the worker is not blocked)
 *   X  qb_log_thread_stop() - its pthread_join runs worker iterations until the worker exits
 *   B  producer posts a message while the backlog counter is just below the 512000-byte limit
 *   C  a control operation on a threaded target (qb_log_thread_pause + resume, as qb_log_ctl2 does), at any time
 * One W = one pass through the worker's for(;;): the sem_wait at the top of the loop
 * returns from the worker on its second evaluation; pthread_exit is 'return'.
 * Stubs: counting semaphores and ghost locks that assert use-after-destroy,
 * pthread_create records the start routine.
 *
 * Oracle: the target sees sequence numbers strictly increasing, each at most once;
 * posted = delivered + dropped(reported) once stop has returned; after stop and a new
 * start a worker exists again and every lock/semaphore used afterwards is live.
 */
#include "verif.h"
#include <string.h>
#include <stdlib.h>
#include <stdio.h>
#include <errno.h>
#include <pthread.h>
#include <semaphore.h>
#include "os_base.h"
#include <qb/qbdefs.h>
#include <qb/qbutil.h>
#include "log_int.h"

#ifndef NOPS
#define NOPS 4
#endif
#ifndef FIRST
#define FIRST 0
#endif

/* ---- ghost locks (like seqenv.h, but with live/held tracking per lock object) ---- */
struct qb_thread_lock_s { int held; int live; };
static struct qb_thread_lock_s lockpool[4];
static int nlocks;
qb_thread_lock_t *qb_thread_lock_create(qb_thread_lock_type_t t) { (void)t; lockpool[nlocks].live = 1; lockpool[nlocks].held = 0; return &lockpool[nlocks++]; }
int32_t qb_thread_lock(qb_thread_lock_t *l) { PROP(l != NULL && l->live, "lock(): the lock exists and was not destroyed"); if (l && l->live) { PROP(!l->held, "lock(): not already held"); l->held = 1; } return 0; }
int32_t qb_thread_unlock(qb_thread_lock_t *l) { PROP(l != NULL && l->live && l->held, "unlock(): a live, held lock"); if (l) l->held = 0; return 0; }
int32_t qb_thread_trylock(qb_thread_lock_t *l) { return qb_thread_lock(l); }
int32_t qb_thread_lock_destroy(qb_thread_lock_t *l) { PROP(l != NULL && l->live && !l->held, "destroy(): a live, released lock"); if (l) l->live = 0; return 0; }

/* ---- counting semaphores ---- */
struct gsem { int live; int count; };
static struct gsem gs[2];
static sem_t *gs_addr[2];
static struct gsem *gsem_of(sem_t *s) { if (gs_addr[0] == s || gs_addr[0] == NULL) { gs_addr[0] = s; return &gs[0]; } gs_addr[1] = s; return &gs[1]; }
static int v_sem_init(sem_t *s, int sh, unsigned v) { (void)sh; struct gsem *g = gsem_of(s); g->live = 1; g->count = (int)v; return 0; }
static int v_sem_destroy(sem_t *s) { struct gsem *g = gsem_of(s); PROP(g->live, "sem_destroy of a live semaphore"); g->live = 0; return 0; }
static int v_sem_post(sem_t *s) { struct gsem *g = gsem_of(s); PROP(g->live, "sem_post on a live semaphore"); g->count++; return 0; }
static int blocked;
static int v_sem_wait(sem_t *s)
{
	struct gsem *g = gsem_of(s);
	PROP(g->live, "sem_wait on a live semaphore");
	if (g->count <= 0) { blocked = 1; ASSUME(0); }     /* a blocked thread does not run: scenarios schedule W only when count > 0 */
	g->count--;
	return 0;
}
static int v_sem_getvalue(sem_t *s, int *v) { struct gsem *g = gsem_of(s); PROP(g->live, "sem_getvalue on a live semaphore"); *v = g->count; return 0; }

/* ---- pthread ---- */
static void *(*worker_fn)(void *);
static int workers_created, worker_exited, worker_exists;
static int v_pthread_create(pthread_t *t, const pthread_attr_t *a, void *(*fn)(void *), void *arg)
{
	(void)a; (void)arg;
	*t = 77; worker_fn = fn; workers_created++; worker_exists = 1; worker_exited = 0;
	/* the new thread runs until it blocks: it posts logt_thread_start (first statement of the worker) */
	v_sem_post(gs_addr[0] ? gs_addr[0] : (sem_t *)0);
	return 0;
}
static int v_pthread_setschedparam(pthread_t t, int p, const struct sched_param *sp) { (void)t; (void)p; (void)sp; return 0; }
static void worker_iteration(void);
static int v_pthread_join(pthread_t t, void **r)
{
	(void)t; (void)r;
	PROP(worker_exists, "join of an existing worker");
	for (int i = 0; i < NOPS + 2 && !worker_exited; i++) worker_iteration();
	PROP(worker_exited, "the worker exits once asked to and the backlog is drained (join returns)");
	worker_exists = 0;
	return 0;
}

/* ---- the target ---- */
static int delivered, last_seq = -1, order_ok = 1;
static int lost_reported;
struct qb_log_callsite;
static qb_thread_lock_t *logt_wthread_lock;      /* (defined by lib/log_thread.c below) */
void qb_log_thread_log_write(struct qb_log_callsite *cs, struct timespec *ts, const char *buffer)
{
	(void)cs; (void)ts;
	/* control operations (qb_log_ctl2 -> pause/resume) exclude the worker through this lock: a target is only
	 * written to while the worker holds it */
	PROP(logt_wthread_lock != NULL && logt_wthread_lock->held, "targets are written under the lock that control operations take (pause/resume)");
	int seq = buffer[0] - 'a';
	if (seq <= last_seq) order_ok = 0;
	last_seq = seq;
	delivered++;
}
static int v_printf(const char *fmt, ...) { (void)fmt; lost_reported = 1; return 0; }

#define sem_init v_sem_init
#define sem_destroy v_sem_destroy
#define sem_post v_sem_post
/* the worker's for(;;) starts with sem_wait(): its second evaluation inside one worker_iteration() call returns
 * from the worker (= the thread is preempted at the top of its loop); other callers are unaffected */
static int in_worker, worker_pass;
#define sem_wait(s) ({ if (in_worker && worker_pass++ >= 1) return NULL; v_sem_wait(s); })
#define sem_getvalue v_sem_getvalue
#define pthread_create v_pthread_create
#define pthread_join v_pthread_join
#define pthread_setschedparam v_pthread_setschedparam
#define pthread_exit(x) do { worker_exited = 1; return NULL; } while (0)
#define printf v_printf
#include "/repo/lib/log_thread.c"
#undef printf

static void worker_iteration(void)
{
	/* one pass through the real worker loop: skip its one-time sem_post (done at pthread_create) by entering normally;
	 * the function posts logt_thread_start again - harmless for the counting model (compensated) */
	if (worker_exited || !worker_exists) return;
	int before = gs[0].count;
	in_worker = 1; worker_pass = 0;
	(void)worker_fn(NULL);
	in_worker = 0;
	gs[0].count = before;          /* undo the repeated start-handshake post */
}

static int posted, dropped_expected;
static char msgs[8][4];
static void post(void)
{
	static struct timespec ts;
	int n = posted++;
	msgs[n][0] = (char)('a' + n); msgs[n][1] = 0;
	qb_log_thread_log_post(NULL, &ts, msgs[n]);
}

struct opdef { uint8_t kind; };
static const struct opdef ALPHA[] = { {0} /*S*/, {1} /*P*/, {2} /*W*/, {3} /*X*/, {4} /*B*/, {5} /*C: control operation on a threaded target*/ };
#define NALPHA 6

static int started;     /* logging thread believed running by the application */
static void do_op(int kind)
{
	switch (kind) {
	case 0: {
		int before = workers_created;
		int32_t r = qb_log_thread_start();
		PROP(r == 0, "thread_start succeeds");
		if (!started) PROP(workers_created == before + 1, "thread_start creates a worker when none is running (also after a stop)");
		started = 1;
		break; }
	case 1:
		if (!started) break;                 /* posting requires a started thread (documented order) */
		post();
		break;
	case 2:
		if (!started || gs[1].count <= 0 && gs_addr[1] != NULL) break;   /* worker blocked on the semaphore */
		if (gs_addr[1] == NULL) break;
		worker_iteration();
		break;
	case 3:
		if (!started) break;
		qb_log_thread_stop();
		started = 0;
		PROP(delivered + dropped_expected == posted, "stop returns only after everything still queued was written");
		PROP(logt_memory_used == 0, "the backlog accounting is back to zero once everything queued was written (no drift towards the limit)");
		break;
	case 5: {
		/* what qb_log_ctl2 does around every reconfiguration of a threaded target - at ANY time:
		 * before the thread is started, while it runs, after it was stopped */
		static struct qb_log_target tgt;
		tgt.threaded = QB_TRUE;
		qb_log_thread_pause(&tgt);
		qb_log_thread_resume(&tgt);
		break; }
	case 4:
		if (!started) break;
		/* backlog just below the limit: this post must be dropped and counted, not queued */
		{
			int saved = logt_memory_used;
			logt_memory_used = 512000 - 8;
			post();
			dropped_expected++;
			PROP(logt_memory_used == 512000 - 8, "a dropped message leaves the backlog accounting unchanged");
			logt_memory_used = saved;          /* back to the real accounting of the queued records */
		}
		break;
	}
}

#ifndef SC_BASE
#define SC_BASE 0
#endif
static void harness_scenario(int s0)
{
	int ops[NOPS];
	int s = s0 + SC_BASE;
	int r = s;
	ops[0] = FIRST;
	for (int n = NOPS - 1; n >= 1; n--) { ops[n] = r % NALPHA; r /= NALPHA; }
	PROP(r == 0, "harness: scenario index within range");
	for (int n = 0; n < NOPS; n++) do_op(ALPHA[ops[n]].kind);
	if (started) { qb_log_thread_stop(); started = 0; }
	PROP(order_ok, "messages are written in the order the producer logged them, each at most once");
	PROP(delivered + dropped_expected == posted, "every queued message was written exactly once before finalisation returned");
	PROP(logt_memory_used == 0, "the backlog accounting is back to zero once everything queued was written (no drift towards the limit)");
	WITNESS("scenario executed");
}
