/*
 * C09 (a,b): duration arithmetic and the loop's sleep bound, clock symbolic.
 *
 * Real code: lib/loop_timerlist.c (qb_loop_timer_add, expire_the_timers,
 * qb_loop_timer_msec_duration_to_expire, qb_loop_timer_expire_time_remaining,
 * qb_loop_timer_is_running), include/tlist.h (timerlist_add_duration,
 * timerlist_expire, timerlist_msec_duration_to_expire, heap), lib/loop.c
 * (qb_loop_run: timeout selection), lib/array.c.
 *
 * The monotonic clock (qb_util_nano_current_get) is a stub returning arbitrary
 * non-decreasing instants in [1, 2^62); the tick rate is symbolic.  NT timers
 * with FULL 64-bit symbolic durations are added, then qb_loop_run runs with a
 * stub fd source that records the timeout it is asked to sleep and stops the
 * loop after ITER iterations.
 */
#include "verif.h"
#include "seqenv.h"
#include "pthread_seq.h"
#include "nolog.h"
#include "cap_realloc.h"
#include <errno.h>

#ifndef NT
#define NT 1
#endif
/* PRIO = QB_LOOP_MED: in a single iteration (p_stop == HIGH) an expired timer is queued but not dispatched,
 * which keeps the job-list/function-pointer machinery (C08's subject) out of the formula */
#ifndef PRIO
#define PRIO QB_LOOP_MED
#endif
#ifndef ITER
#define ITER 2
#endif
#define NCLK 24

struct { uint64_t t[NCLK]; } in_clk;
uint64_t in_hz_sel;
struct { uint64_t d[NT]; } in_dur;
uint32_t in_jobs_first;   /* jobs were just queued in the first iteration (50 ms throttle clause) */

static int clk_n;
static uint64_t clk_last;
static uint64_t verif_now(void)
{
	uint64_t t = in_clk.t[clk_n < NCLK ? clk_n : NCLK - 1];
	PROP(clk_n < NCLK, "env: clock table large enough");
	clk_n++;
	ASSUME(t >= clk_last && t >= 1 && t < (1ULL << 62));
	clk_last = t;
	return t;
}
#ifndef HZ
#define HZ 1000
#endif
/* tick rate is a per-obligation constant: a symbolic divisor would put a 64-bit divider circuit into every query */
static uint64_t verif_hz(void) { return HZ; }
#define qb_util_nano_current_get verif_now
#define qb_util_nano_from_epoch_get verif_now
#define qb_util_nano_monotonic_hz verif_hz
static long verif_random(void) { return 12345; }
#define random verif_random
#define realloc verif_realloc
#include "/repo/lib/array.c"
#include "/repo/lib/loop.c"
#include "/repo/lib/loop_timerlist.c"
#undef realloc

/* ---- ghost ---- */
static uint64_t g_add_time[NT];        /* clock value used by the add (the read inside timerlist_add_duration) */
static int g_fired[NT];
static uint64_t g_fire_clock[NT];      /* last clock value read before the callback ran */
static int g_fire_seq[NT];
static int g_seq;
static qb_loop_timer_handle th[NT];

static void timer_cb(void *data)
{
	int i = (int)(intptr_t)data;
	g_fired[i]++;
	g_fire_clock[i] = clk_last;
	g_fire_seq[i] = g_seq++;
}

/* true expiry as a mathematical integer: hi:lo = add_time + duration (may need 65 bits) */
static int expiry_overflows(int i) { return in_dur.d[i] > UINT64_MAX - g_add_time[i]; }
static uint64_t expiry_lo(int i) { return g_add_time[i] + in_dur.d[i]; }
/* "instant t is strictly before the true expiry" */
static int before_expiry(uint64_t t, int i) { return expiry_overflows(i) || t < expiry_lo(i); }

static struct qb_loop L;
static struct qb_loop_source fdsrc;
static int iter;
static int32_t seen_timeout[ITER];
static uint64_t sleep_clock[ITER];
static int pending_at_sleep[ITER][NT];

static int32_t fd_poll(struct qb_loop_source *s, int32_t ms_timeout)
{
	(void)s;
	if (iter < ITER) {
		seen_timeout[iter] = ms_timeout;
		sleep_clock[iter] = clk_last;
		for (int i = 0; i < NT; i++) pending_at_sleep[iter][i] = !g_fired[i];
	}
	iter++;
	if (iter >= ITER) qb_loop_stop(&L);
	return 0;
}
static int32_t job_poll(struct qb_loop_source *s, int32_t ms_timeout)
{
	(void)s; (void)ms_timeout;
	return (iter == 0 && in_jobs_first) ? 1 : 0;   /* "jobs were just queued" */
}
static struct qb_loop_source jobsrc;

void harness(void)
{
	IN(in_clk); IN(in_hz_sel); IN(in_dur); IN(in_jobs_first);
	ASSUME(in_jobs_first <= 1);

	for (int p = QB_LOOP_LOW; p <= QB_LOOP_HIGH; p++) {
		L.level[p].priority = p; L.level[p].to_process = 4; L.level[p].todo = 0; L.level[p].l = &L;
		qb_list_init(&L.level[p].job_head); qb_list_init(&L.level[p].wait_head);
	}
	L.timer_source = qb_loop_timer_create(&L);
	fdsrc.l = &L; fdsrc.poll = fd_poll; L.fd_source = &fdsrc;
	jobsrc.l = &L; jobsrc.poll = job_poll; L.job_source = &jobsrc;

	for (int i = 0; i < NT; i++) {
		int32_t r = qb_loop_timer_add(&L, PRIO, in_dur.d[i], (void *)(intptr_t)i, timer_cb, &th[i]);
		PROP(r == 0, "timer_add accepts every 64-bit duration");
		g_add_time[i] = clk_last;
	}

	/* queries while pending, at an arbitrary later instant */
	for (int i = 0; i < NT; i++) {
		uint64_t rem = qb_loop_timer_expire_time_remaining(&L, th[i]);
		uint64_t tq = clk_last;
		int run = qb_loop_timer_is_running(&L, th[i]);
		PROP(run, "is_running is true while the timer is pending");
		if (before_expiry(tq, i)) {
			PROP(rem > 0, "time remaining is non-zero while the timer is pending and not yet due");
			if (!expiry_overflows(i)) PROP(rem == expiry_lo(i) - tq, "time remaining equals expiry minus now");
		} else {
			PROP(rem == 0, "time remaining is zero once the expiry has passed");
		}
	}

	qb_loop_run(&L);

	for (int i = 0; i < NT; i++) {
		PROP(g_fired[i] <= 1, "a timer is dispatched at most once");
		if (g_fired[i]) {
			WITNESS_BRANCH("a timer fired");
			PROP(!before_expiry(g_fire_clock[i], i), "timer not dispatched before its duration has elapsed");
			PROP(!qb_loop_timer_is_running(&L, th[i]), "is_running is false after dispatch");
			PROP(qb_loop_timer_expire_time_remaining(&L, th[i]) == 0, "time remaining is zero after dispatch");
		}
		for (int j = 0; j < NT; j++) {
			if (g_fired[i] && g_fired[j] && !expiry_overflows(i) && !expiry_overflows(j) &&
			    expiry_lo(i) < expiry_lo(j)) {
				PROP(g_fire_seq[i] < g_fire_seq[j], "same-priority timers dispatched in order of expiry");
			}
		}
	}
	/* sleep bound, every iteration */
	uint64_t tick_ms = 1000 / verif_hz();
	for (int k = 0; k < ITER; k++) {
		int any = 0;
		for (int i = 0; i < NT; i++) any |= pending_at_sleep[k][i];
		if (!any) continue;
		WITNESS_BRANCH("slept with a pending timer");
		int32_t ms = seen_timeout[k];
		PROP(ms >= 0, "loop never blocks indefinitely while a timer is pending");
		uint64_t slack_ms = tick_ms + ((k == 0 && in_jobs_first) ? 50 : 0);
		for (int i = 0; i < NT; i++) {
			if (!pending_at_sleep[k][i] || ms < 0) continue;
			if (!expiry_overflows(i)) {
				uint64_t e = expiry_lo(i);
				uint64_t now = sleep_clock[k];
				/* Stated in whole milliseconds: ms <= floor((e - now) / 1e6) + slack_ms, which implies
				 * now + ms*1e6 <= e + slack_ms*1e6 because floor(x/M)*M <= x (trusted arithmetic lemma;
				 * a product ms*1e6 in the assertion makes the SAT query intractable). */
				uint64_t whole_ms_left = e > now ? (e - now) / 1000000ULL : 0;
				PROP((uint64_t)ms <= whole_ms_left + slack_ms,
				     "loop wakes no later than the earliest expiry plus the fixed slack");
				if (e < sleep_clock[k] && !(k == 0 && in_jobs_first))
					PROP(ms == 0, "loop does not sleep when a timer is already due");
			}
		}
	}
	PROP(iter == ITER, "qb_loop_run returned after the stop request");
	WITNESS("end");
}
