/*
 * C09 (c): the timer heap of include/tlist.h for ALL add/delete/expire
 * histories of K timers with symbolic expiries.
 *
 * K timers are added with the real timerlist_add_duration (symbolic 64-bit
 * durations, symbolic non-decreasing clock), a symbolic subset is deleted with
 * the real timerlist_del, then the real timerlist_expire runs at a symbolic
 * instant, K2 more timers are added, and it runs again.  Callbacks are
 * recorded directly (the dispatch chain through the loop levels is C08).
 */
#include "verif.h"
#include "pthread_seq.h"
#include "nolog.h"
#include "cap_realloc.h"
#include <errno.h>
#include <string.h>
#include <qb/qbdefs.h>
#include <qb/qbutil.h>

#ifndef K
#define K 3
#endif
#ifndef K2
#define K2 1
#endif
#define KT (K + K2)
#define NCLK (KT + 8)

struct { uint64_t t[NCLK]; } in_clk;
struct { uint64_t d[KT]; } in_dur;
struct { uint8_t del[KT]; } in_del;

static int clk_n;
static uint64_t clk_last;
static uint64_t verif_now(void)
{
	PROP(clk_n < NCLK, "env: clock table large enough");
	uint64_t t = in_clk.t[clk_n < NCLK ? clk_n : NCLK - 1];
	clk_n++;
	ASSUME(t >= clk_last && t >= 1 && t < (1ULL << 62));
	clk_last = t;
	return t;
}
static uint64_t verif_hz(void) { return 1000; }
#define qb_util_nano_current_get verif_now
#define qb_util_nano_from_epoch_get verif_now
#define qb_util_nano_monotonic_hz verif_hz
#define realloc verif_realloc
#include "/repo/include/tlist.h"
#undef realloc

static struct timerlist tl;
static timer_handle h[KT];
static uint64_t g_add[KT];
static int g_deleted[KT];
static int g_fired[KT];
static uint64_t g_fire_clock[KT];
static int g_fire_seq[KT];
static int g_seq;
static int g_added[KT];

static void cb(void *data)
{
	int i = (int)(intptr_t)data;
	g_fired[i]++;
	g_fire_clock[i] = clk_last;
	g_fire_seq[i] = g_seq++;
}
static int overflows(int i) { return in_dur.d[i] > UINT64_MAX - g_add[i]; }
static uint64_t exp_lo(int i) { return g_add[i] + in_dur.d[i]; }
static int before_expiry(uint64_t t, int i) { return overflows(i) || t < exp_lo(i); }
/* expiry as the code must see it: true value, or "never" (saturated) when it does not fit */
static uint64_t exp_sat(int i) { return overflows(i) ? UINT64_MAX : exp_lo(i); }

static void check_heap(const char *unused)
{
	(void)unused;
	int pending = 0;
	for (int i = 0; i < KT; i++) if (g_added[i] && !g_deleted[i] && !g_fired[i]) pending++;
	PROP(tl.size == (size_t)pending, "heap size equals number of pending timers");
	PROP(timerlist_debug_is_valid_heap(&tl), "heap property holds");
	for (size_t p = 0; p < KT; p++) {
		if (p < tl.size) PROP(tl.heap_entries[p]->heap_pos == p, "heap_pos back-pointer consistent");
	}
	for (int i = 0; i < KT; i++) {
		if (g_added[i] && !g_deleted[i] && !g_fired[i]) {
			struct timerlist_timer *t = (struct timerlist_timer *)h[i];
			PROP(t != NULL && t->heap_pos < tl.size && tl.heap_entries[t->heap_pos] == t, "pending timer is in the heap where it says");
			PROP(t->expire_time == exp_sat(i), "stored expiry is add time + duration (saturated)");
			PROP(tl.heap_entries[0]->expire_time <= t->expire_time, "heap root is the earliest pending expiry");
		} else if (g_added[i]) {
			PROP(h[i] == NULL, "handle of a deleted / fired timer is cleared");
		}
	}
}

static void add_one(int i)
{
	int r = timerlist_add_duration(&tl, cb, (void *)(intptr_t)i, in_dur.d[i], &h[i]);
	PROP(r == 0, "add succeeds");
	g_add[i] = clk_last;
	g_added[i] = 1;
}

static void expire_and_check(void)
{
	int r = timerlist_expire(&tl);
	uint64_t now = clk_last;      /* both clock reads of timerlist_expire happened; monotonic value used is <= now */
	PROP(r == 0, "expire succeeds");
	for (int i = 0; i < KT; i++) {
		if (!g_added[i]) continue;
		PROP(g_fired[i] <= 1, "a timer fires at most once");
		if (g_deleted[i]) PROP(g_fired[i] == 0, "a deleted timer never fires");
		if (g_fired[i]) PROP(!before_expiry(g_fire_clock[i], i), "no timer fires before its duration has elapsed");
	}
}

void harness(void)
{
	IN(in_clk); IN(in_dur); IN(in_del);
	timerlist_init(&tl);
	for (int i = 0; i < K; i++) add_one(i);
	check_heap("after adds");
	for (int i = 0; i < K; i++) {
		if (in_del.del[i] & 1) {
			PROP(timerlist_del(&tl, h[i]) == 0, "del succeeds");
			g_deleted[i] = 1;
		}
	}
	check_heap("after deletes");

	/* first expiry pass: uses the first clock read (monotonic) of timerlist_expire */
	int first_read = clk_n;
	expire_and_check();
	uint64_t t_used = in_clk.t[first_read < NCLK ? first_read : NCLK - 1];
	for (int i = 0; i < K; i++) {
		if (!g_deleted[i] && !overflows(i) && exp_lo(i) < t_used)
			PROP(g_fired[i] == 1, "every pending timer whose expiry has passed is dispatched");
		for (int j = 0; j < K; j++) {
			if (g_fired[i] && g_fired[j] && exp_sat(i) < exp_sat(j))
				PROP(g_fire_seq[i] < g_fire_seq[j], "timers are dispatched in order of expiry");
		}
	}
	check_heap("after first expire");
	WITNESS_BRANCH("first expire done");

	for (int i = K; i < KT; i++) add_one(i);
	check_heap("after second adds");
	int second_read = clk_n;
	expire_and_check();
	uint64_t t_used2 = in_clk.t[second_read < NCLK ? second_read : NCLK - 1];
	for (int i = 0; i < KT; i++) {
		if (!g_deleted[i] && !overflows(i) && exp_lo(i) < t_used2)
			PROP(g_fired[i] == 1, "every pending timer whose expiry has passed is dispatched (second pass)");
	}
	check_heap("after second expire");

	/* time to the next expiry, as used for the poll timeout */
	if (tl.size > 0) {
		uint64_t ms = timerlist_msec_duration_to_expire(&tl);
		uint64_t now = clk_last;
		/* stated against the heap root, which check_heap() showed to be the earliest pending expiry;
		 * "<= time to ANY pending timer + tick" then follows from monotonicity of floor division
		 * (trusted lemma - asserting it per timer needs a/M <= b/M reasoning that stalls SAT) */
		uint64_t e = tl.heap_entries[0]->expire_time;
		uint64_t whole_ms_left = e > now ? (e - now) / 1000000ULL : 0;
		PROP(ms <= whole_ms_left + 1, "time to next expiry never exceeds the time to the earliest pending timer plus one tick");
		PROP(e >= now || ms == 0, "no waiting when the earliest timer is already due");
		WITNESS_BRANCH("timers left pending");
	}
	WITNESS("end");
}
