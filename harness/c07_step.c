/*
 * C07 (a): one inductive step of the sequential ring buffer.
 *
 * Pre-state: ANY ring representing a ghost FIFO q of <= RING_K chunks
 * (lengths <= RING_L, arbitrary bytes) at ANY read_pt, on top of ARBITRARY
 * old contents (so free space may hold words equal to the marker constants).
 * One real API operation with symbolic arguments.  Post: result code, output
 * bytes and Rep(ring', q').  Together with the empty ring as base case this
 * covers operation histories of any length for ring size RING_W.
 *
 * Real code: lib/ringbuffer.c qb_rb_chunk_write/alloc/commit/read/peek/
 * reclaim, qb_rb_space_free/used, qb_rb_chunk_step.
 */
#include "ring_common.h"

#ifndef RING_SEM
#define RING_SEM 0
#endif

struct { uint32_t w[RING_W]; } in_junk;
uint32_t in_read_pt;
struct ghost_q in_q;
uint32_t in_op;
uint32_t in_len;
uint32_t in_clen;
uint32_t in_buflen;
struct { uint8_t b[RING_L + 1]; } in_payload;

/* ---- notifier stub (semaphore = counter), used when RING_SEM ------------ */
static int32_t sem_count;
static int32_t st_post(void *i, size_t s) { (void)i; (void)s; sem_count++; return 0; }
static ssize_t st_qlen(void *i) { (void)i; return sem_count; }
static int32_t st_timedwait(void *i, int32_t ms)
{
	(void)i; (void)ms;
	if (sem_count <= 0) return -ETIMEDOUT;
	sem_count--;
	return 0;
}
static int32_t st_reclaim(void *i, size_t s) { (void)i; (void)s; return 0; }

static uint32_t snap[RING_W];
static uint32_t snap_r, snap_w;
static void snapshot(void)
{
	for (int i = 0; i < RING_W; i++) snap[i] = ring_data[i];
	snap_r = ring_hdr.read_pt; snap_w = ring_hdr.write_pt;
}
#define UNCHANGED(tag) do { \
	for (int i_ = 0; i_ < RING_W; i_++) PROP(snap[i_] == ring_data[i_], tag ": ring data unchanged"); \
	PROP(snap_r == ring_hdr.read_pt && snap_w == ring_hdr.write_pt, tag ": ring pointers unchanged"); \
} while (0)

void harness(void)
{
	IN(in_junk); IN(in_read_pt); IN(in_q); IN(in_op); IN(in_len); IN(in_clen);
	IN(in_buflen); IN(in_payload);

	ASSUME(in_read_pt < RING_W);
	ASSUME(in_q.n <= RING_K);
	for (uint32_t i = 0; i < RING_K + 1; i++) ASSUME(in_q.c[i].len <= RING_L);
	ASSUME(ghost_words(&in_q) <= RING_W - 1);
	ASSUME(in_len <= RING_L);
	ASSUME(in_clen <= in_len);
	ASSUME(in_buflen <= RING_L + 1);
	ASSUME(in_op < 6);

	for (int i = 0; i < RING_W; i++) ring_data[i] = in_junk.w[i];
	ring_build(RING_SEM ? QB_RB_FLAG_SHARED_THREAD : QB_RB_FLAG_NO_SEMAPHORE, in_read_pt, &in_q);
#if RING_SEM
	ring_rb.notifier.post_fn = st_post;
	ring_rb.notifier.q_len_fn = st_qlen;
	ring_rb.notifier.timedwait_fn = st_timedwait;
	ring_rb.notifier.reclaim_fn = st_reclaim;
	sem_count = (int32_t)in_q.n;
#endif
#ifdef KF_C07_STALE_MAGIC
	/* known finding excluded: empty semaphore-less ring whose word after read_pt holds the marker */
	if (in_q.n == 0) ASSUME(ring_data[WMOD(in_read_pt + 1)] != QB_RB_CHUNK_MAGIC);
#endif

	struct ghost_q q = in_q;           /* becomes q' */
	uint32_t used_bytes = 0;           /* contract accounting: len + 16 per chunk */
	for (uint32_t i = 0; i < in_q.n; i++) used_bytes += in_q.c[i].len + 16;
	snapshot();

	if (in_op == 0) {
		/* qb_rb_chunk_write */
		ssize_t r = qb_rb_chunk_write(&ring_rb, in_payload.b, in_len);
		PROP(r == (ssize_t)in_len || r == -EAGAIN, "write returns len or -EAGAIN");
		if (used_bytes + in_len + 16 <= 4u * RING_W - 13) {
			PROP(r == (ssize_t)in_len, "write that fits the size contract is never refused");
		}
		if (in_q.n == 0 && in_len <= 4u * RING_W - 13) {
			/* S = 4W-13 is the largest requested size that yields W words: an EMPTY ring takes any chunk up to S */
			PROP(r == (ssize_t)in_len, "empty ring accepts any single chunk up to the requested size");
		}
		if (r == (ssize_t)in_len) {
			WITNESS_BRANCH("write accepted");
			PROP(q.n < RING_K + 1, "ghost capacity");
			q.c[q.n].len = in_len;
			for (uint32_t j = 0; j < RING_L + 1; j++) q.c[q.n].b[j] = in_payload.b[j];
			q.n++;
		} else {
			WITNESS_BRANCH("write refused");
			UNCHANGED("refused write");
		}
	} else if (in_op == 1) {
		/* qb_rb_chunk_alloc + user fill + qb_rb_chunk_commit(clen <= len) */
		void *p = qb_rb_chunk_alloc(&ring_rb, in_len);
		if (used_bytes + in_len + 16 <= 4u * RING_W - 13) {
			PROP(p != NULL, "alloc that fits the size contract is never refused");
		}
		if (in_q.n == 0 && in_len <= 4u * RING_W - 13) {
			PROP(p != NULL, "empty ring accepts any single alloc up to the requested size");
		}
		if (p == NULL) {
			PROP(errno == EAGAIN, "refused alloc sets EAGAIN");
			UNCHANGED("refused alloc");
		} else {
			size_t off = 0;
			PROP(ring_ptr_in(p, &off) && off < RING_BYTES && off % 4 == 0, "alloc pointer is a word inside the ring");
			PROP(off / 4 == WMOD(snap_w + 2), "alloc pointer is the payload slot after the header at write_pt");
			verif_ring_memcpy(p, in_payload.b, in_clen);
			int32_t cr = qb_rb_chunk_commit(&ring_rb, in_clen);
			PROP(cr == 0, "commit succeeds");
			WITNESS_BRANCH("alloc+commit accepted");
			q.c[q.n].len = in_clen;
			for (uint32_t j = 0; j < RING_L + 1; j++) q.c[q.n].b[j] = in_payload.b[j];
			q.n++;
		}
	} else if (in_op == 2) {
		/* qb_rb_chunk_read into a buffer of in_buflen bytes */
		uint8_t out[RING_L + 1];
		for (uint32_t j = 0; j < RING_L + 1; j++) out[j] = 0xEE;
		ssize_t r = qb_rb_chunk_read(&ring_rb, out, in_buflen, 0);
		if (in_q.n == 0) {
			PROP(r == -ETIMEDOUT, "read on empty ring reports -ETIMEDOUT");
			UNCHANGED("read on empty ring");
			WITNESS_BRANCH("read on empty ring");
		} else if (in_buflen < in_q.c[0].len) {
			PROP(r == -ENOBUFS, "read into too-small buffer reports -ENOBUFS");
			UNCHANGED("short read");
			WITNESS_BRANCH("short read");
		} else {
			PROP(r == (ssize_t)in_q.c[0].len, "read returns the length of the oldest chunk");
			for (uint32_t j = 0; j < in_q.c[0].len; j++) {
				PROP(out[j] == in_q.c[0].b[j], "read returns the bytes of the oldest chunk");
			}
			for (uint32_t i = 0; i + 1 < RING_K + 1; i++) q.c[i] = q.c[i + 1];
			q.n--;
			WITNESS_BRANCH("read delivered");
		}
	} else if (in_op == 3) {
		/* qb_rb_chunk_peek, compare, then qb_rb_chunk_reclaim */
		void *p = NULL;
		ssize_t r = qb_rb_chunk_peek(&ring_rb, &p, 0);
		if (in_q.n == 0) {
			PROP(r <= 0, "peek on empty ring returns no chunk");
			UNCHANGED("peek on empty ring");
			WITNESS_BRANCH("peek on empty ring");
		} else {
			size_t off = 0;
			PROP(r == (ssize_t)in_q.c[0].len, "peek returns the length of the oldest chunk");
			PROP(p != NULL && ring_ptr_in(p, &off) && off < RING_BYTES, "peek pointer inside ring");
			for (uint32_t j = 0; j < in_q.c[0].len; j++) {
				PROP(ring_get_byte((uint32_t)off + j) == in_q.c[0].b[j], "peek exposes the bytes of the oldest chunk");
			}
			UNCHANGED("peek");
			qb_rb_chunk_reclaim(&ring_rb);
			for (uint32_t i = 0; i + 1 < RING_K + 1; i++) q.c[i] = q.c[i + 1];
			q.n--;
			WITNESS_BRANCH("peek+reclaim");
		}
	} else if (in_op == 4) {
		ssize_t f = qb_rb_space_free(&ring_rb);
		PROP(f >= 0 && (size_t)f + 4u * ghost_words(&in_q) <= 4u * RING_W, "space_free never over-reports");
		if (in_q.n == 0) PROP(f == (ssize_t)(4u * RING_W), "empty ring reports all space free");
		UNCHANGED("space_free");
		WITNESS_BRANCH("space_free");
	} else {
		ssize_t u = qb_rb_space_used(&ring_rb);
		PROP(u >= 0 && u <= (ssize_t)(4u * RING_W), "space_used within ring size");
		PROP((u == 0) == (in_q.n == 0), "space_used is zero exactly when no chunk is queued");
		UNCHANGED("space_used");
		WITNESS_BRANCH("space_used");
	}

	RING_CHECK_REP(&q, "post-state");
#if RING_SEM
	PROP(sem_count == (int32_t)q.n, "semaphore count equals queued chunks");
#endif
	WITNESS("end of step");
}
