/*
 * C19: growable array -- bounded histories of index/grow calls, symbolic
 * arguments over the full int32_t / size_t range.
 *
 * Real code: lib/array.c (all functions).  Locks: ghost (seqenv.h) - asserts
 * lock/unlock pairing.  realloc of the bin table: capacity model (cap_realloc.h,
 * 8 bins = 128 elements); requests beyond the model are assumed away for
 * auto-grow and stated as outside the claim.
 */
#include "verif.h"
#include "seqenv.h"
#include "cap_realloc.h"
#include <errno.h>
#include <string.h>
#include <stdlib.h>
#ifndef ESZ
#define ESZ 8
#endif
#ifndef NOPS
#define NOPS 3
#endif
#define MODEL_ELEMS ((VERIF_REALLOC_CAP / 8) * 16)

#define realloc verif_realloc
#include "/repo/lib/array.c"
#undef realloc

uint32_t in_max;
uint32_t in_autogrow;
struct { uint8_t kind[NOPS]; int32_t idx[NOPS]; uint64_t n[NOPS]; uint8_t wr[NOPS]; } in_ops;

static int cb_calls[VERIF_REALLOC_CAP / 8 + 1];
static void new_bin(qb_array_t *a, uint32_t bin)
{
	(void)a;
	PROP(bin < VERIF_REALLOC_CAP / 8, "new_bin_cb: bin number inside the bin table");
	if (bin < VERIF_REALLOC_CAP / 8) cb_calls[bin]++;
}

static int32_t g_idx[NOPS];
static unsigned char *g_ptr[NOPS];
static int g_ok[NOPS];
static uint8_t g_val[NOPS];

static int disjoint(unsigned char *a, unsigned char *b)
{
#ifdef VERIF_CBMC
	if (!__CPROVER_same_object(a, b)) return 1;
	__CPROVER_size_t oa = __CPROVER_POINTER_OFFSET(a), ob = __CPROVER_POINTER_OFFSET(b);
	return oa + ESZ <= ob || ob + ESZ <= oa;
#else
	uintptr_t oa = (uintptr_t)a, ob = (uintptr_t)b;
	return oa + ESZ <= ob || ob + ESZ <= oa;
#endif
}

void harness(void)
{
	IN(in_max); IN(in_autogrow); IN(in_ops);
	ASSUME(in_max <= 40);
	ASSUME(in_autogrow == 0 || in_autogrow == 1 || in_autogrow == 16);

	qb_array_t *a = qb_array_create_2(in_max, ESZ, in_autogrow);
	PROP(a != NULL, "create succeeds for valid parameters");
	PROP(qb_array_new_bin_cb_set(a, new_bin) == 0, "cb_set");
	size_t cur_max = in_max;

	for (int k = 0; k < NOPS; k++) {
		g_ok[k] = 0;
		if (in_ops.kind[k] & 1) {
			/* ---- grow(n) ---- */
			uint64_t n = in_ops.n[k];
			ASSUME(n <= MODEL_ELEMS - 32 || n > QB_ARRAY_MAX_ELEMENTS);   /* model capacity (stated bound) */
			int32_t r = qb_array_grow(a, n);
			if (n > QB_ARRAY_MAX_ELEMENTS) {
				PROP(r == -EINVAL, "grow beyond 65536 elements fails");
			} else {
				PROP(r == 0, "grow within range succeeds");
				if (n > cur_max) cur_max = n;
			}
			WITNESS_BRANCH("grow");
		} else {
			/* ---- index(idx) ---- */
			int32_t idx = in_ops.idx[k];
			void *p = NULL;
			if (in_autogrow) ASSUME(idx < (int32_t)(MODEL_ELEMS - 32) || idx >= QB_ARRAY_MAX_ELEMENTS);
			int32_t r = qb_array_index(a, idx, &p);
			if (idx < 0) {
				PROP(r == -ERANGE, "negative index fails with a range error");
			} else if (idx >= QB_ARRAY_MAX_ELEMENTS) {
				PROP(r != 0, "index outside [0, 65536) always fails");
			} else if ((size_t)idx >= cur_max && !in_autogrow) {
				PROP(r == -ERANGE, "index beyond the current size fails with a range error without auto-grow");
				WITNESS_BRANCH("index ERANGE");
			} else {
				PROP(r == 0 && p != NULL, "index within the current size (or with auto-grow) succeeds");
				if (r != 0 || p == NULL) return;
				if ((size_t)idx >= cur_max) { cur_max = (size_t)idx + 1; WITNESS_BRANCH("auto-grow"); }
				g_ok[k] = 1; g_idx[k] = idx; g_ptr[k] = p;
				int seen_before = 0;
				for (int j = 0; j < k; j++) {
					if (!g_ok[j]) continue;
					if (g_idx[j] == idx) {
						seen_before = 1;
						PROP(g_ptr[j] == g_ptr[k], "address of an index is stable for the life of the array");
						PROP(g_ptr[k][0] == g_val[j] && g_ptr[k][ESZ - 1] == g_val[j], "written element survives later growth");
					} else {
						PROP(disjoint(g_ptr[j], g_ptr[k]), "storage of two different indices never overlaps");
					}
				}
				if (!seen_before) {
					for (int b = 0; b < ESZ; b++) PROP(g_ptr[k][b] == 0, "never-written element reads as zero");
				}
				g_val[k] = in_ops.wr[k] | 1;
				for (int j = 0; j < k; j++) if (g_ok[j] && g_idx[j] == idx) g_val[j] = g_val[k];
				for (int b = 0; b < ESZ; b++) g_ptr[k][b] = g_val[k];
				WITNESS_BRANCH("index ok");
			}
		}
		PROP(verif_locks_held == 0, "grow lock released after every call");
	}
	for (int b = 0; b < VERIF_REALLOC_CAP / 8; b++) PROP(cb_calls[b] <= 1, "new_bin_cb called at most once per bin");
	WITNESS("end");
}
