/*
 * C14 (a,b): qb_vsnprintf_serialize / qb_vsnprintf_deserialize memory safety and
 * directive-level faithfulness.
 *
 * Format skeleton (compile-time): up to 3 directives, classes C1 C2 C3
 *   0 none  1 int(d i o u x X)  2 long  3 long long(ll z t j)  4 double(e E f F g G a A)
 *   5 char  6 string  7 pointer  8 "%%"  9 '*' width + int
 * each optionally with one symbolic flag byte (FLAG), one symbolic width digit (WID),
 * '.' + one symbolic precision digit (PREC); one symbolic literal byte between directives.
 * Symbolic: conversion letters within the class, flag/width/precision bytes, all argument
 * values (full range), string lengths 0..SL and bytes (may contain '%'), NULL strings,
 * max_len (1..MAXLEN) = EXACT size of the heap output buffer, str_len (1..STRLEN) = exact
 * size of the decode buffer.
 *
 * Real code: lib/log_format.c qb_vsnprintf_serialize, qb_vsnprintf_deserialize, my_strlcpy,
 * my_strlcat; lib/strlcpy.c, lib/strlcat.c.
 */
#include "verif.h"
#include <string.h>
#include <stdlib.h>
#include <stdio.h>
#include <stdarg.h>
#include <stddef.h>
#include <ctype.h>
#include <time.h>
#include "os_base.h"
#include <qb/qbdefs.h>
#include <qb/qblog.h>

#ifndef C1
#define C1 6
#endif
#ifndef C2
#define C2 6
#endif
#ifndef C3
#define C3 0
#endif
#ifndef FLAG
#define FLAG 0
#endif
#ifndef WID
#define WID 0
#endif
#ifndef PREC
#define PREC 0
#endif
#ifndef SL
#define SL 6
#endif
#ifndef MAXLEN
#define MAXLEN 24
#endif
#ifndef STRLEN_
#define STRLEN_ 16
#endif
#ifndef DESER
#define DESER 1
#endif

/* ---- snprintf as used by deserialize: bounded writer that reports an arbitrary would-be length ---- */
struct { uint8_t n[4]; } in_sn;
static int sn_calls;
static int verif_snprintf(char *buf, size_t size, const char *fmt, ...)
{
	(void)fmt;
	unsigned want = in_sn.n[sn_calls < 4 ? sn_calls : 3] % 24;     /* text libc would produce: 0..23 chars */
	sn_calls++;
	if (size > 0) {
		size_t w = want < size - 1 ? want : size - 1;
		for (size_t i = 0; i < 24; i++) if (i < w) buf[i] = 'x';
		buf[w] = 0;
	}
	return (int)want;
}
/* GNU strchrnul has no body in CBMC's library (its result would be an unconstrained pointer): reference model */
static char *verif_strchrnul(const char *s, int c)
{
	while (*s && *s != (char)c) s++;
	return (char *)s;
}
#define strchrnul verif_strchrnul
#define snprintf verif_snprintf
#define pthread_rwlock_init(a, b) 0
#define pthread_rwlock_destroy(a) 0
#define pthread_rwlock_rdlock(a) 0
#define pthread_rwlock_wrlock(a) 0
#define pthread_rwlock_unlock(a) 0
#include "log_int.h"
static struct qb_log_target the_target;
struct qb_log_target *qb_log_target_get(int32_t pos) { (void)pos; return &the_target; }
#include "/repo/lib/strlcpy.c"
#include "/repo/lib/strlcat.c"
#include "/repo/lib/log_format.c"
#undef snprintf

struct dir_in { char flag, wid, prec, conv_sel, lit; int32_t i; int64_t l; uint64_t dbl; char s[SL + 1]; uint8_t slen; uint8_t snull; };
struct { struct dir_in d[3]; } in_d;
uint32_t in_maxlen;
uint32_t in_strlen;

static const char *const CONVS[10] = { "", "diouxX", "diouxX", "diouxX", "eEfFgGaA", "c", "s", "p", "%", "diouxX" };
static const char *const LENMOD3[4] = { "ll", "z", "t", "j" };

static int build_dir(char *f, int p, int cls, struct dir_in *d)
{
	if (cls == 0) return p;
	f[p++] = '%';
	if (cls == 8) { f[p++] = '%'; return p; }
	if (FLAG) { ASSUME(d->flag == '#' || d->flag == '-' || d->flag == ' ' || d->flag == '+' || d->flag == '\'' || d->flag == '0'); f[p++] = d->flag; }
	if (cls == 9) f[p++] = '*';
	else if (WID) { ASSUME(d->wid >= '1' && d->wid <= '9'); f[p++] = d->wid; }
	if (PREC) { ASSUME(d->prec >= '0' && d->prec <= '9'); f[p++] = '.'; f[p++] = d->prec; }
	if (cls == 2) f[p++] = 'l';
	if (cls == 3) { const char *m = LENMOD3[(unsigned char)d->conv_sel / 8 % 4]; for (int i = 0; m[i]; i++) f[p++] = m[i]; }
	const char *set = CONVS[cls];
	int n = (int)strlen(set);
	f[p++] = set[(unsigned char)d->conv_sel % n];
	return p;
}

static char sarg[3][SL + 1];
static size_t do_serialize(char *out, size_t max, const char *fmt, ...)
{
	va_list ap;
	va_start(ap, fmt);
	size_t r = qb_vsnprintf_serialize(out, max, fmt, ap);
	va_end(ap);
	return r;
}

#define ARG(n, cls) \
	((cls) == 1 || (cls) == 5) ? 0 : 0

void harness(void)
{
	IN(in_sn); IN(in_d); IN(in_maxlen); IN(in_strlen);
	ASSUME(in_maxlen >= 1 && in_maxlen <= MAXLEN);
	ASSUME(in_strlen >= 1 && in_strlen <= STRLEN_);

	char fmt[40];
	int p = 0;
	const int cls[3] = { C1, C2, C3 };
	for (int k = 0; k < 3; k++) {
		if (cls[k] == 0) continue;
		p = build_dir(fmt, p, cls[k], &in_d.d[k]);
		if (in_d.d[k].lit != 0 && in_d.d[k].lit != '%') fmt[p++] = in_d.d[k].lit;   /* optional literal byte */
		unsigned n = in_d.d[k].slen % (SL + 1);
		for (unsigned i = 0; i < SL + 1; i++) sarg[k][i] = (i < n) ? (in_d.d[k].s[i] ? in_d.d[k].s[i] : 'q') : 0;
	}
	fmt[p] = 0;

	char *out = malloc(in_maxlen);
	ASSUME(out != NULL);
	for (unsigned i = 0; i < MAXLEN; i++) if (i < in_maxlen) out[i] = 0;

	/* the call, with argument types matching the skeleton */
#define A(k) (cls[k] == 6 ? (void *)(in_d.d[k].snull & 1 ? NULL : sarg[k]) : NULL)
	size_t r;
#define I(k) in_d.d[k].i
#define L(k) in_d.d[k].l
	double dv[3];
	for (int k = 0; k < 3; k++) memcpy(&dv[k], &in_d.d[k].dbl, sizeof(double));
	/* one call per class combination is selected at compile time */
#if C3 == 0 && C2 == 0
# if C1 == 6
	r = do_serialize(out, in_maxlen, fmt, A(0));
# elif C1 == 4
	r = do_serialize(out, in_maxlen, fmt, dv[0]);
# elif C1 == 2 || C1 == 3 || C1 == 7
	r = do_serialize(out, in_maxlen, fmt, L(0));
# elif C1 == 9
	r = do_serialize(out, in_maxlen, fmt, I(0), (int)L(0));
# else
	r = do_serialize(out, in_maxlen, fmt, I(0));
# endif
#elif C3 == 0
# if C1 == 6 && C2 == 6
	r = do_serialize(out, in_maxlen, fmt, A(0), A(1));
# elif C1 == 6 && (C2 == 1 || C2 == 5)
	r = do_serialize(out, in_maxlen, fmt, A(0), I(1));
# elif (C1 == 1 || C1 == 5) && C2 == 6
	r = do_serialize(out, in_maxlen, fmt, I(0), A(1));
# elif (C1 == 1 || C1 == 5) && (C2 == 1 || C2 == 5)
	r = do_serialize(out, in_maxlen, fmt, I(0), I(1));
# elif (C1 == 2 || C1 == 3 || C1 == 7) && C2 == 6
	r = do_serialize(out, in_maxlen, fmt, L(0), A(1));
# elif C1 == 6 && (C2 == 2 || C2 == 3 || C2 == 7)
	r = do_serialize(out, in_maxlen, fmt, A(0), L(1));
# elif C1 == 4 && C2 == 6
	r = do_serialize(out, in_maxlen, fmt, dv[0], A(1));
# elif C1 == 9 && C2 == 6
	r = do_serialize(out, in_maxlen, fmt, I(0), (int)L(0), A(1));
# elif C1 == 8 && C2 == 6
	r = do_serialize(out, in_maxlen, fmt, A(1));
# else
#  error "class combination not wired"
# endif
#else
# if C1 == 6 && C2 == 6 && C3 == 6
	r = do_serialize(out, in_maxlen, fmt, A(0), A(1), A(2));
# elif C1 == 6 && C2 == 6 && (C3 == 1 || C3 == 5)
	r = do_serialize(out, in_maxlen, fmt, A(0), A(1), I(2));
# elif C1 == 6 && (C2 == 1 || C2 == 5) && C3 == 6
	r = do_serialize(out, in_maxlen, fmt, A(0), I(1), A(2));
# else
#  error "class combination not wired"
# endif
#endif
	PROP(r <= in_maxlen, "serialize reports at most max_len bytes used");
	WITNESS_BRANCH("serialized");

#if DESER
	if (r <= in_maxlen) {
		/* decode what was encoded, into an exact-size buffer */
		int terminated = 0;
		for (unsigned i = 0; i < MAXLEN; i++) if (i < in_maxlen && out[i] == 0) terminated = 1;
		if (terminated) {
			char *str = malloc(in_strlen);
			ASSUME(str != NULL);
			size_t dr = qb_vsnprintf_deserialize(str, in_strlen, out);
			int nul = 0;
			for (unsigned i = 0; i < STRLEN_; i++) if (i < in_strlen && str[i] == 0) nul = 1;
			PROP(nul, "decoded text is NUL-terminated inside the caller's buffer");
			(void)dr;
			WITNESS_BRANCH("deserialized");
		}
	}
#endif
	WITNESS("end");
}
